#!/bin/bash
# Determinism self-test: the same seeds, several processes, different GOMAXPROCS and GOGC; the per-run
# digests must be identical. usage: tools/determinism.sh [runs] [props...]
export GOFLAGS=-mod=mod GOPROXY=off GOSUMDB=off GOTOOLCHAIN=local
N=${1:-300}; shift
PROPS=${@:-C04 C10 C12 C15 C16 C17 C18}
cd /verif/sim && go1.26.8 test -c -tags verif -o /verif/bin/worker.test ./worker || exit 2
tmp=$(mktemp -d /root/.cache/det.XXXX); rc=0
for p in $PROPS; do
  for i in 1 2 3; do
    GOGC=$((1+(i-1)*50)) GOMAXPROCS=$((i*i*i)) VERIF_JOB='{"prop":"'$p'","mode":"gen","seed":'${VERIF_SEED:-1}',"from":0,"to":'$N',"log":true}' /verif/bin/worker.test -test.run '^TestWorker$' 2>/dev/null | grep '@@LOG' > $tmp/$p.$i
  done
  n=$(wc -l < $tmp/$p.1)
  if [ "$n" != "$N" ] || ! cmp -s $tmp/$p.1 $tmp/$p.2 || ! cmp -s $tmp/$p.1 $tmp/$p.3; then echo "NON-DETERMINISTIC: $p ($n of $N runs logged)"; diff $tmp/$p.1 $tmp/$p.2 | head -4; diff $tmp/$p.1 $tmp/$p.3 | head -4; rc=2; else echo "deterministic: $p ($N runs x 3 configurations)"; fi
done
rm -rf $tmp; exit $rc
