#!/bin/bash
# Thorough tier of every check in a background snapshot:
#   vp run --with-repo --timeout 5h -- tools/bg_thorough.sh <seed> [budget-seconds-per-check]
# works in the snapshot (VERIF_DIR=$PWD) against the /repo snapshot ($VP_RUN_REPO), so edits to /repo do not disturb it.
export VERIF_DIR=$PWD
export GOFLAGS=-mod=mod GOPROXY=off GOSUMDB=off GOTOOLCHAIN=local
sed -i "s#=> /repo#=> ${VP_RUN_REPO:-/repo}#" sim/go.mod
export VERIF_SEED=${1:-2}
./setup.sh && tools/run_all.sh thorough $2
