#!/usr/bin/env python3
"""Writes seeded/<name>/meta.json from result.txt and the table below; prints the catch matrix (markdown)."""
import json, os, re
NEEDS = {
 "C05-A": ("C05", "Fork copies only repetition counters > 1", "a forked board plus a position seen exactly once before the fork and twice more on the fork (third occurrence not reported)"),
 "C05-B": ("C05", "same-coloured-bishops test rewritten as 'all bishops on light squares'", "a capture/under-promotion leaving kings and two DARK-squared bishops"),
 "C08-A": ("C08", "PopMove decrements the repetition counter of the position returned to instead of the one left", "push+pop from P, then play on until P has occurred three times"),
 "C08-B": ("C08", "Fork shares the current history node instead of copying it", "fork at P, then BOTH boards move on from P (LastMove/HasMoved/HasCastled cross-talk)"),
 "C02-A": ("C02", "rights of a captured rook dropped only for MoveType Capture, not CapturePromotion", "a pawn captures a rook on its home square WITH promotion while the right is still held"),
 "C02-B": ("C02", "capture fast path skips the rotated-occupancy update, guarded by IsCaptureOrEnPassant", "an en-passant capture is played (capturer missing from All()/rotations)"),
 "C07-A": ("C07", "incremental hash swaps the castling key only when a king or rook moves", "a rook captured on its home square by another piece while the right is held"),
 "C07-B": ("C07", "en-passant key table loop excludes the a-file (exclusive bound)", "an a-pawn double step vs. the twin position without e.p. target (clause 2: distinct positions collide)"),
 "C03-A": ("C03", "same-sign mate comparison rewritten on MateDistance(): losing mates inverted", "a forced mate where the defender can choose between lines of different length, depth >= 5"),
 "C03-B": ("C03", "stand-pat beta cut-off before looking for a legal move in quiescence", "quiescence leaf, mate/stalemate exactly at the horizon under a narrowed window"),
}
def main():
    rows=[]
    for name in sorted(os.listdir('/verif/seeded')):
        d=f'/verif/seeded/{name}'
        rp=f'{d}/result.txt'
        if not os.path.exists(rp): continue
        res=open(rp).read().strip().splitlines()
        prop,what,needs = NEEDS.get(name,(name.split('-')[0],'see notes.md','see notes.md'))
        checks={}
        for l in res:
            m=re.match(r'check (\w+): exit=(\d+) kinds=(.*)',l)
            if m: checks[m.group(1)]={'exit':int(m.group(2)),'kinds':[k for k in m.group(3).split(',') if k]}
        confirmed = any('suite with change: green' in l for l in res) and any('demo with change: FAIL' in l for l in res) and any('demo without change: PASS' in l for l in res)
        meta={'name':name,'property':prop,'change':what,'needs_to_manifest':needs,'confirmed':{'existing_suite_green_with_change':any('suite with change: green' in l for l in res),'demo_fails_with_change':any('demo with change: FAIL' in l for l in res),'demo_passes_without_change':any('demo without change: PASS' in l for l in res)},
              'ran':['tools/seeded.sh (scratch worktree: go build ./... && go test -vet=off -count=1 ./...; demo with/without)', 'git -C /repo apply patch.diff; ./check <prop> --no-shrink; git -C /repo checkout -- .'],
              'checks':checks,'caught':any(c['exit']==1 for c in checks.values()),'author':'fresh sub-agent given only the property text and a scratch worktree'}
        json.dump(meta,open(f'{d}/meta.json','w'),indent=1)
        rows.append((name,prop,what,needs,checks,confirmed))
    print('| change | property | what | needs | caught by (quick tier, seed 1) |'); print('|---|---|---|---|---|')
    for name,prop,what,needs,checks,conf in rows:
        cb='; '.join(f"{p}: {', '.join(c['kinds']) if c['exit']==1 else ('MISSED' if c['exit']==0 else 'exit '+str(c['exit']))}" for p,c in checks.items())
        print(f"| {name} | {prop} | {what} | {needs} | {cb} |")
if __name__=='__main__': main()
