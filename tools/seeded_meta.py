#!/usr/bin/env python3
"""Writes seeded/<name>/meta.json from result.txt and the table below; prints the catch matrix (markdown)."""
import json, os, re
NEEDS = {
 "C05-A": ("C05", "Fork copies only repetition counters > 1", "a forked board plus a position seen exactly once before the fork and twice more on the fork (third occurrence not reported)"),
 "C05-B": ("C05", "same-coloured-bishops test rewritten as 'all bishops on light squares'", "a capture/under-promotion leaving kings and two DARK-squared bishops"),
 "C08-A": ("C08", "PopMove decrements the repetition counter of the position returned to instead of the one left", "push+pop from P, then play on until P has occurred three times"),
 "C08-B": ("C08", "Fork shares the current history node instead of copying it", "fork at P, then BOTH boards move on from P (LastMove/HasMoved/HasCastled cross-talk)"),
 "C02-A": ("C02", "rights of a captured rook dropped only for MoveType Capture, not CapturePromotion", "a pawn captures a rook on its home square WITH promotion while the right is still held"),
 "C02-B": ("C02", "capture fast path skips the rotated-occupancy update, guarded by IsCaptureOrEnPassant", "an en-passant capture is played (capturer missing from All()/rotations)"),
 "C07-A": ("C07", "incremental hash swaps the castling key only when a king or rook moves", "a rook captured on its home square by another piece while the right is held"),
 "C07-B": ("C07", "en-passant key table loop excludes the a-file (exclusive bound)", "an a-pawn double step vs. the twin position without e.p. target (clause 2: distinct positions collide)"),
 "C03-A": ("C03", "same-sign mate comparison rewritten on MateDistance(): losing mates inverted", "a forced mate where the defender can choose between lines of different length, depth >= 5"),
 "C03-B": ("C03", "stand-pat beta cut-off before looking for a legal move in quiescence", "quiescence leaf, mate/stalemate exactly at the horizon under a narrowed window"),
 "C12-A": ("C12", "table-write guards test a 'halted' flag set only at alpha-beta node entry instead of polling the context", "quiescence leaf + table + a halt landing at a poll INSIDE a leaf's quiescence search (2 of 1424 polls in the demo)"),
 "C12-B": ("C12", "Minimax breaks out of the move loop when cancelled, then adjudicates 'no legal move'", "a halt between the root's entry poll and its first legal move (1 poll per search; more when the root is in check)"),
 "C14-A": ("C14", "printCastling rewritten with a copy-paste slip: 'q' written iff Black has the king-side right", "Black holds exactly one of its two castling rights"),
 "C14-B": ("C14", "half-move clock reset condition rewritten as a list that misses the EnPassant move type", "a game history containing an en-passant capture, FEN read before the next pawn move/capture"),
 "C15-A": ("C15", "init.Close() hoisted in front of the first root.Search: Halt no longer waits for depth 1", "a halt requested while depth 1 is still being searched"),
 "C15-B": ("C15", "Limits uses Moves instead of Moves+1", "exactly 'movestogo 1' with a non-zero clock (hard limit = 1.5 x clock)"),
 "C17-A": ("C17", "a same-hash store refreshes the published node in place instead of CAS-ing a new one", "two goroutines on the same hash at the same moment (torn tuple, data race)"),
 "C17-B": ("C17", "replacement-value test hoisted out of the CAS retry loop", "writer L loads and passes the test, writer H stores, L's CAS fails, L reloads and overwrites the higher-valued entry"),
 "C10-A": ("C10", "ucinewgame resets the engine but no longer clears lastPosition", "position P; ucinewgame; position P (verbatim or extended), P not bare startpos"),
 "C10-B": ("C10", "FEN en-passant square dropped by a shadowed variable in Decode", "a 'position fen' whose en-passant field is not '-'"),
 "C16-A": ("C16", "forwarder closes its done channel before calling searchCompleted", "a non-infinite search superseded while its forwarder sits between 'channel closed' and its CAS on 'active'"),
 "C16-B": ("C16", "Engine.Halt waits outside the lock and clears e.active unconditionally afterwards (ported to the tree with lock hooks)", "the movetime timer is inside Engine.Halt while the loop supersedes search 1 and launches search 2: search 2 is orphaned, the driver later blocks for ever"),
 "C04-A": ("C04", "ensureInactive returns early when Halt finds no active search (skips the wait for the forwarder)", "a go ended by stop/movetime whose forwarder is delayed past the next position+go"),
 "C04-B": ("C04", "the root clears only Repetition3/NoProgress draws, not Repetition5/InsufficientMaterial", "a game history (position ... moves ...) ending in insufficient material or a five-fold repetition, then go"),
 "C18-A": ("C18", "Engine.Halt clears e.active under the lock but waits for the search outside it (ported to the tree with lock hooks)", "one engine driven from two goroutines: Analyze accepted while the halted search still unwinds (shared noise/evaluator state)"),
 "C18-B": ("C18", "SARGON Points.Reset cached by root hash", "two consecutive searches on one engine from equal-hash roots with different history, depth >= 2"),
 "C11-A": ("C11", "table write guarded by alpha <= beta instead of alpha < beta: a score landing exactly on beta stored as exact", "a tie with beta at a node whose true value is higher, reached again under another window (sequences of searches on one table)"),
 "C11-B": ("C11", "the '!IsCancelled' guard of the leaf table write dropped", "quiescence leaf + a halt during a leaf's quiescence search + a later search sharing the table"),
 "w3-C05-A": ("C05", "half-move clock update rewritten as a switch that misses the EnPassant move type", "an en-passant capture followed by 99 quiet half-moves without repetition (draw reported one ply early)"),
 "w3-C05-B": ("C05", "castling rights only updated when a king or rook moves (rook captured at home keeps the right)", "rook captured on its home square by another piece, then the position repeated around a king excursion (third occurrence missed)"),
 "w3-C08-A": ("C08", "PopMove flips the turn before clearing the has-castled flag: wrong colour cleared", "a castling move played and taken back"),
 "w3-C08-B": ("C08", "Fork copies only the repetition counts of the no-progress window, off by one", "fork right after a capture / pawn move, then that position twice more on the fork"),
 "w3-C02-A": ("C02", "castling handed to a helper that never resets the en-passant target", "a double pawn step answered immediately by castling"),
 "w3-C02-B": ("C02", "CastlingRightsLost: '=' instead of '|=' on captures", "the first move of a king or rook off its home square is a capture"),
 "w3-C03-A": ("C03", "hasLegalMove only set for explored moves", "selective exploration that selects no move at a node where the side to move is not in check"),
 "w3-C03-B": ("C03", "draw test skipped at depth 0", "static leaf + a node at the horizon that is drawn by history / clock / material"),
 "w3-C07-A": ("C07", "capture-promotion hashed with the pawn key on the promotion square", "a capture-promotion is played"),
 "w3-C07-B": ("C07", "castling key loop leaves both 'no rights' and 'KQkq' at zero", "two positions identical except KQkq vs no castling rights (clause 2)"),
 "w3-C04-A": ("C04", "Halt closes quit before waiting for depth 1", "a halt (stop, movetime, exhausted clock) reaching the handle before depth 1 completes"),
 "w3-C04-B": ("C04", "searchCompleted: CompareAndSwap replaced by Load ... Store", "a search ending by itself at the moment stop is processed, or a slow reader with a full output buffer (two bestmoves for one go)"),
 "w3-C10-A": ("C10", "continuation test loses its token boundary", "FEN whose full-move number grows by a digit, no ucinewgame in between"),
 "w3-C10-B": ("C10", "Engine.Reset skips the reset when the FEN equals the current one", "position with moves, then position fen <the very FEN the engine stands on> (history kept)"),
 "w3-C11-A": ("C11", "table cut-off accepts deeper entries (depth <= d)", "an earlier deeper search of the game filled the table; new root two plies on searched from depth 1"),
 "w3-C11-B": ("C11", "table compares only the low 32 bits of the hash", "two positions whose hashes agree in the low 32 bits in searches sharing a table"),
 "w3-C12-A": ("C12", "root draw result restored only on the normal return path", "a root whose result is already Draw + a halt at any cancellation point"),
 "w3-C12-B": ("C12", "halted decision from a flag quiescence never sets", "quiescence leaf + halt inside the quiescence of the last leaf visited (result reported instead of ErrHalted)"),
 "w3-C14-A": ("C14", "PopMove flips the turn last: full-move number decremented for the wrong colour", "Move then TakeBack (odd net number of take-backs)"),
 "w3-C14-B": ("C14", "destination square considered for castling rights only for MoveType Capture", "capture-promotion of an unmoved rook on its home square"),
 "w3-C15-A": ("C15", "h.pv stored after the send; Halt copies it before waiting for the goroutine", "halt requested between the channel send of depth d and the store (Halt returns d-1)"),
 "w3-C15-B": ("C15", "publish step is a single non-blocking send (new iteration dropped when the previous is unread)", "a listener that is behind when the last iteration is published"),
 "w3-C16-A": ("C16", "ensureInactive only on the new-position path, not for continuations", "a running non-infinite go, no stop, then a position that continues the previous one"),
 "w3-C17-A": ("C17", "empty-slot fast path without CAS, counted unconditionally", "two first writers on the same empty slot, one delayed between load and store"),
 "w3-C17-B": ("C17", "evicted nodes recycled through a sync.Pool", "a reader holding a node pointer while it is evicted and refilled"),
 "w3-C18-A": ("C18", "Engine.Reset keeps the table when the size is unchanged", "Hash on (power-of-two MB), Reset, search, Reset, search"),
 "w3-C18-B": ("C18", "eval.Random draws from the process-wide math/rand source", "noise on + another noisy engine created or searching in between"),
 "w4-C04-A": ("C04", "movetime expiry channel made unbuffered (non-blocking send drops it unless the loop sits in its select)", "go movetime on an engine without depth limit, the timer firing while the loop is not in its select"),
 "w4-C04-B": ("C04", "go only calls ensureInactive if the driver's active flag is set", "a go whose search ended by itself and was answered, followed by another go with nothing in between (Analyze: search already active -> driver exits)"),
 "w4-C10-A": ("C10", "setoption name Hash re-sets the current position through Reset(Position())", "position with moves, setoption Hash in mid-game, then an extended or repeated position (history gone, FEN identical)"),
 "w4-C10-B": ("C10", "Engine.Move refuses moves once the board carries a drawn result", "a move list that continues after a third repetition / clock 100 / insufficient material"),
 "w4-C11-A": ("C11", "WriteLimited forwards ply and depth in the wrong order", "min-depth table wrapper + a sequence of searches sharing it (entries labelled with the game ply)"),
 "w4-C11-B": ("C11", "incremental hash treats a capturing promotion like a plain capture", "any table + a position where an under-promotion by capture beats the queen promotion"),
 "w4-C12-A": ("C12", "extra cancellation poll in the move loop; '!cancelled' dropped from the interior table write", "halt first visible while the LAST move of a node is searched, after an earlier move raised alpha"),
 "w4-C12-B": ("C12", "cancelled quiescence returns before PopMove", "quiescence leaf + halt seen at least one explored capture below the quiescence root"),
 "w4-C15-A": ("C15", "any mate score ends the analysis, even one beyond the searched depth", "an engine whose leaf search sees past the nominal depth (TUROCHAMP quiescence) on a position with a mate just beyond it"),
 "w4-C15-B": ("C15", "Engine.Analyze treats an explicit depth limit 0 like 'not set'", "engine with a non-zero default depth + request DepthLimit=Some(0)"),
 "w4-C16-A": ("C16", "ensureInactive halts before clearing the active flag", "a running finite search superseded without stop, the forwarder's CAS landing before the flag is cleared"),
 "w4-C16-B": ("C16", "Handle.Halt takes h.mu before waiting for the search goroutine", "a halt landing while the running iteration completes normally (search blocks on h.mu, Halt waits for it: deadlock)"),
 "w4-C02-A": ("C02", "Move.Equals compares the promotion piece only when the receiver is a promotion move (asymmetric)", "an under-promotion arriving as text (Engine.Move / UCI 'position ... moves e7e8n'): parsed move matched against the generated ones, the queen promotion wins"),
 "w4-C02-B": ("C02", "IsChecked tests a pawn-attacker table built without cropping the edge files", "a king on the a- or h-file and an enemy pawn on the opposite edge file two ranks away (phantom check: legal moves refused, false mates)"),
 "w4-C03-A": ("C03", "move loop breaks as soon as alpha is a forced mate for the side to move", "a node with two mating moves of different length, the longer one first in move order, both inside the horizon (depth >= 4)"),
 "w4-C03-B": ("C03", "the deferred restore of the root's draw result moved after the clear (captures Undecided)", "a root whose board carries a Draw from its history; Result() compared before/after the search"),
 "w4-C03-C": ("C03", "PV updated whenever the new score equals alpha (ties replace the PV, fail-lows included)", "a node where a later move ties with alpha without attaining the returned value (third change kept by the agent as an extra)"),
 "w4-C05-A": ("C05", "insufficient-material test only after captures: a plain under-promotion is no longer checked", "K+P v K, the pawn promotes by a straight push to a knight or bishop"),
 "w4-C05-B": ("C05", "AdjudicateNoLegalMoves keeps an already terminal result", "a game that carries an unclaimed draw (repetition, clock, material) and then reaches mate or stalemate"),
 "w4-C07-A": ("C07", "castling rook squares for the hash derived from the king's destination +-1 (right for O-O only)", "an O-O-O by either colour (rook hashed from the b-file)"),
 "w4-C07-B": ("C07", "Board.Hash() folds a bucket of the half-move clock into the hash once it reaches 14", "14 plies without pawn move or capture, or a FEN whose half-move field is >= 14"),
 "w4-C08-A": ("C08", "PopMove clears only mate/stalemate results; PushMove clears a left-over Draw", "a move that draws (third repetition, clock, material) taken back: the position returned to inherits the draw"),
 "w4-C08-B": ("C08", "repetition table emptied on irreversible moves, not restored by take-back", "an irreversible move taken back, then a repetition against positions from before it"),
 "w4-C14-A": ("C14", "full-move number derived from the ply count since the root", "a game set up from a FEN with Black to move, read when White is to move"),
 "w4-C14-B": ("C14", "Engine caches its FEN; TakeBack does not invalidate the cache", "Engine.Position() after Move, TakeBack, Position()"),
 "w4-C17-A": ("C17", "full-hash signature kept in a side array, stored after the CAS; Read trusts the signature alone", "two hashes of one slot, a reader or second writer between a writer's CAS and its signature store"),
 "w4-C17-B": ("C17", "Engine.Reset clears and keeps a table of unchanged size; Clear() forgets the fill counter", "a search that stores something, Reset with the Hash size unchanged, another search (fill fraction counts the previous games' slots)"),
 "w4-C18-A": ("C18", "AlphaBeta.Search reports halted only if the score is invalid", "a halt arriving mid-tree in an iteration of depth >= 2 (partial result published as a finished depth)"),
 "w4-C18-B": ("C18", "Fork shares the head node + Engine.Move halts after pushing", "Analyze, then Engine.Move with no Halt in between while the search is inside the tree"),
}
def main():
    rows=[]
    for name in sorted(os.listdir('/verif/seeded')):
        d=f'/verif/seeded/{name}'
        rp=f'{d}/result.txt'
        if not os.path.exists(rp): continue
        res=open(rp).read().strip().splitlines()
        prop,what,needs = NEEDS.get(name,(name.split('-')[0],'see notes.md','see notes.md'))
        checks={}
        for l in res:
            m=re.match(r'check (\w+): exit=(\d+) kinds=(.*)',l)
            if m: checks[m.group(1)]={'exit':int(m.group(2)),'kinds':[k for k in m.group(3).split(',') if k]}
        confirmed = any('suite with change: green' in l for l in res) and any('demo with change: FAIL' in l for l in res) and any('demo without change: PASS' in l for l in res)
        meta={'name':name,'property':prop,'change':what,'needs_to_manifest':needs,'confirmed':{'existing_suite_green_with_change':any('suite with change: green' in l for l in res),'demo_fails_with_change':any('demo with change: FAIL' in l for l in res),'demo_passes_without_change':any('demo without change: PASS' in l for l in res)},
              'ran':['tools/seeded.sh (scratch worktree: go build ./... && go test -vet=off -count=1 ./...; demo with/without)', 'git -C /repo apply patch.diff; ./check <prop> --no-shrink; git -C /repo checkout -- .'],
              'checks':checks,'caught':any(c['exit']==1 for c in checks.values()),'author':'fresh sub-agent given only the property text and a scratch worktree'}
        json.dump(meta,open(f'{d}/meta.json','w'),indent=1)
        rows.append((name,prop,what,needs,checks,confirmed))
    print('| change | property | what | needs | caught by (quick tier, seed 1) |'); print('|---|---|---|---|---|')
    for name,prop,what,needs,checks,conf in rows:
        cb='; '.join(f"{p}: {', '.join(c['kinds']) if c['exit']==1 else ('MISSED' if c['exit']==0 else 'exit '+str(c['exit']))}" for p,c in checks.items())
        print(f"| {name} | {prop} | {what} | {needs} | {cb} |")
if __name__=='__main__': main()
