#!/bin/bash
# Determinism under load: the whole quick tier of each property, K processes side by side (GOGC=1, so that
# the collector and the other processes perturb real timing), the per-run digests must be identical.
# Rare races between two tasks woken by one event only show up like this (DESIGN.md 13.1).
# usage: tools/determinism_load.sh [runs] [copies] [props...]
export GOFLAGS=-mod=mod GOPROXY=off GOSUMDB=off GOTOOLCHAIN=local
N=${1:-3000}; K=${2:-20}; shift; shift
PROPS=${@:-C04 C10 C12 C15 C16 C17 C18}
cd /verif/sim && go1.26.8 test -c -tags verif -o /verif/bin/worker.test ./worker || exit 2
tmp=$(mktemp -d /root/.cache/detl.XXXX); rc=0
for p in $PROPS; do
  pids=""
  for i in $(seq 1 $K); do
    ( GOGC=1 GOMAXPROCS=$((1+i%4)) VERIF_JOB='{"prop":"'$p'","mode":"gen","seed":'${VERIF_SEED:-1}',"from":0,"to":'$N',"log":true}' /verif/bin/worker.test -test.run '^TestWorker$' 2>/dev/null | grep '@@LOG' > $tmp/$p.$i ) &
    pids="$pids $!"
  done
  wait $pids
  bad=0
  for i in $(seq 2 $K); do
    if ! cmp -s $tmp/$p.1 $tmp/$p.$i; then bad=1; echo "NON-DETERMINISTIC: $p (copy $i)"; diff $tmp/$p.1 $tmp/$p.$i | head -6; fi
  done
  n=$(wc -l < $tmp/$p.1)
  [ "$n" != "$N" ] && { echo "NON-DETERMINISTIC: $p ($n of $N runs logged)"; bad=1; }
  [ $bad = 0 ] && echo "deterministic under load: $p ($N runs x $K concurrent processes)" || rc=2
done
rm -rf $tmp; exit $rc
