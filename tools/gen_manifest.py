#!/usr/bin/env python3
"""Writes /verif/MANIFEST.json from the tables below (single source, always schema-valid)."""
import json, subprocess

NA_PURE = {
 "C01": "Pure function of (position, side): no state, clock, fault, interleaving or history in it. Deciding it is input enumeration/differential testing (perft), not deterministic simulation; DESIGN.md section 7.",
 "C06": "Pure functions of (square, piece, occupancy) over a finite enumerable domain: exhaustive enumeration is the right family, there is nothing to schedule or fault; DESIGN.md section 7.",
 "C09": "Order laws on an immutable value type: algebra over inputs, no schedule, clock, fault or history. (The one instance that changes play, mated-sooner vs mated-later, is exercised through C03's independent score model.) DESIGN.md section 7.",
 "C13": "Window contract of one search call is a function of (position, depth, window): no history, schedule or fault; DESIGN.md section 7.",
 "C19": "Totality of pure parsers over all strings is fuzzing of functions of one string; no schedule, clock or fault to simulate; DESIGN.md section 7.",
 "C20": "Evaluations and move filters of the historical engines are pure functions of (position, last two moves, flags); totality and mirror symmetry are input properties; DESIGN.md section 7.",
}

# id -> (level, design_ref, text, note, technique)
CHECKS = {}
PENDING = {}

def chk(i, level, ref, text, note, technique):
    CHECKS[i] = (level, ref, text, note, technique)

chk("C02", "exploration", "DESIGN.md 5/C02",
    "Seeded S-B sessions (play / rejected push / take-back / fork over up to 4 live boards, 4..320 operations) with every successor compared, after every operation, to an independent mailbox rules model and every redundant view of the position cross-checked (square, per-piece, per-colour, occupancy, rotated occupancy, attack queries incremental vs rebuilt vs definition, FEN). Sampling, not proof: the history dimension (a redundant view drifting several moves before it matters) is what unit tests cannot reach.",
    "Trusts verif/sim/rules (validated by perft against published counts before every check). Moves are offered only if the position's own generator emits them (PushMove's documented contract).",
    "deterministic simulation: seeded operation histories vs reference model, checked per operation")
chk("C05", "exploration", "DESIGN.md 5/C05",
    "Seeded S-B sessions biased to shuffles, FEN clocks 90..99, strip-down endings and forks; after every push the reported result is compared with the draw events recomputed from the game-as-a-list model (occurrence count incl. start node, clock by the FEN definition, material classes), and no-legal-move adjudication with the model's in-check test.",
    "Trusts verif/sim/rules. Draw-reason precedence is left open (any reason naming an event that holds is accepted; five-fold must be named from the fifth occurrence).",
    "deterministic simulation: seeded operation histories vs reference model, checked per operation")
chk("C07", "exploration", "DESIGN.md 5/C07",
    "After every operation on every live board (incl. boards not operated on) Hash() must equal the table's from-scratch hash; per run a two-way map model-position <-> hash catches a component missing from both computations. Zobrist seed drawn per run.",
    "2^-64 coincidences ignored. Model position key = placement, side, castling rights, e.p. target as recorded after every double step.",
    "deterministic simulation: seeded operation histories, invariant checked per operation")
chk("C08", "exploration", "DESIGN.md 5/C08",
    "Every live board that went through take-backs and forks is compared, after every operation on any board, getter by getter (position by value, turn, hash, clocks, ply, has-castled, last/second-to-last move, moved-piece sets, String) with a replay twin that pushed the same line with no take-back or fork; result: not drawn right after a take-back, and drawn exactly when the twin detects the draw at that node.",
    "The generator never pops a board below the fork point of a live relative (Fork's documented contract). Defects the twin shows too are C05's/C02's, not reported here.",
    "deterministic simulation: seeded interleavings of play/take-back/fork vs replay twin")

chk("C03", "exploration", "DESIGN.md 5/C03",
    "Real AlphaBeta.Search (full/selective exploration, static/quiescence leaf, seeded evaluation and ordering) run as an operation of a live board session and compared with exhaustive negamax on the model game through an independent integer score model: exact value (mate distances incl. mated-sooner/later), PV legal, no longer than depth, first move optimal, board handed back unchanged. Histories (repetitions before the root, clocks near 100) are part of the input.",
    "Trusts verif/sim/rules and verif/sim/msearch. Value at an already-drawn root is not judged; over-budget reference searches are counted, not judged.",
    "deterministic simulation: seeded game histories + search operations vs reference negamax")
chk("C14", "exploration", "DESIGN.md 5/C14",
    "FEN codec round trip both ways at every state S-B visits (model clocks and tape-drawn clocks 0..150 / 1..300), and engine histories (Reset with arbitrary clocks / Move / TakeBack) with Engine.Position() compared to the standard FEN of the model game after every call.",
    "The all-strings half of the codec statement is C19's (not claimed). Trusts verif/sim/rules for FEN clock definitions.",
    "deterministic simulation: seeded operation histories vs reference model, checked per operation")

chk("C11", "exploration", "DESIGN.md 5/C11",
    "Sessions of searches sharing one real table of tape-drawn size (2..65536 slots, with/without the min-depth write filter): iterative deepening, the game advancing between rounds, halted searches in between. Per search: root score equals the same search with no table; the PV's first move has the root value (no-table search of the child); every sampled exact store equals the no-table full-window value of the forked position at that depth; every hit returns the last store let through for that hash.",
    "Differential baseline is the repo's own AlphaBeta without table (so a C03 defect is not blamed on the table). Sessions are excluded from the first search in which a repetition/fifty-move draw could arise in the tree, and at already-drawn roots.",
    "deterministic simulation: seeded search sequences on shared state (cache-size knob forces eviction), differential oracle per operation")
chk("C12", "fault_enumeration", "DESIGN.md 5/C12",
    "Every cancellation poll of a search is a crash point: the poll count P of a search is measured, then the search is rerun with the context cancelled at exactly poll n for all n<=P (P<=250; otherwise first/last 80 + 90 sampled). Judged per n: ErrHalted and no result, all board getters unchanged, every table store after the halt verified as a true value, two follow-up searches on the same table equal to those on a twin table the halted search never touched. AlphaBeta (all configurations), Minimax, SARGON's check-extension leaf; fresh and pre-filled tables.",
    "Cancellation is observed only through ctx.Done() (contextx.IsCancelled), so a counting context is an exact seam. Halt()/stop/timer paths that reach the search through goroutines are covered under C15/C16/C04 (S-A).",
    "deterministic simulation: enumeration of every cancellation point (counting context), recording table, twin comparison")

chk("C04", "exploration", "DESIGN.md 5/C04",
    "The real UCI driver + engine + iterative launcher + search of all four wirings run inside a synctest bubble against a polite simulated GUI; the controller decides from the tape when commands arrive, how far each search goroutine gets (gate credits), when hooked tasks (loop, forwarder, timers, Halt callers) proceed, when simulated time passes and when the output consumer stalls. An obligation tracker demands exactly one bestmove per go, legal in the position last set up (independent rules model), 0000 only without legal moves; liveness is decided in a settle phase after the last stimulus.",
    "Legality by verif/sim/rules. Scheduling freedom exists at the gate and the simhook points (DESIGN.md 2.3); the four main() wirings are repeated in the harness. Whether 'go infinite' may be answered before 'stop' (book move, depth limit) is left open by the sentence and only counted.",
    "deterministic simulation: synctest bubble, seeded scheduler over gate/hook points, simulated clock, obligation tracker")

chk("C16", "exploration", "DESIGN.md 5/C16",
    "Adversarial UCI sessions in the bubble: position/go/ucinewgame/setoption/stop/isready/quit/EOF and torn, garbage and duplicated lines arrive while searches are parked mid-tree and forwarders, timers and Halt callers are parked at their hooks; the seeded controller explores their relative order, the clock and consumer stalls. Judged: no panic in any goroutine (worker process death, minimised by subprocess replay), no deadlock at a quiescent point, readyok per isready, every bestmove attributable to a go that was open when it was written and legal in that go's position (positions alternate the side to move, so a stale answer is illegal by construction), at most one per go, clean shutdown after quit/EOF, no exit without cause.",
    "A command takes effect when the loop takes it. Exit on ill-formed input is accepted. Orders inside seekerror/stdlib helpers cannot be hooked. Data races as such are the -race tier's business (a serialising scheduler hides them).",
    "deterministic simulation: synctest bubble, seeded scheduler over gate/hook points, fault injection (EOF/quit mid-search, supersede, torn lines, stalls, clock jumps)")
chk("C10", "exploration", "DESIGN.md 5/C10",
    "Sequences of position/ucinewgame commands (unrelated, extended by 1..4 moves, repeated verbatim, shortened, prefix traps) through the real driver, with searches left parked mid-tree in between; at the quiescent point after each command the engine's position is compared with the model game of that command alone, and full FEN, ply, clocks, result and the per-ply results of a probe continuation (reversible moves revisiting earlier positions) with a fresh engine on which the line was set up from scratch.",
    "Only well-formed commands with legal moves. Clock values vs the FEN standard are C14's; the reference for clocks and repetition history here is the same engine code set up from scratch (the property's second sentence).",
    "deterministic simulation: seeded command histories through the real driver in a bubble, differential + model oracle per command")
chk("C15", "exploration", "DESIGN.md 5/C15",
    "Iterative.Launch driven directly in the bubble: gated search of tape-drawn configuration, depth limits, real tables, TimeControl on the simulated clock, 0..2 halter tasks at tape-chosen instants (before the first evaluation, between iterations, after the end, twice, racing the hard timer), a reader that keeps up or lags. Judged: increasing/consecutive depths, each iteration equal to a direct fixed-depth search, natural end exactly at limit or forced mate, Halt() never before depth 1 nor shallower than already reported and equal to a direct search, hard <= clock, termination after halt/limit/hard timer once everything runs.",
    "Iteration contents compared with table off only. Soft limit may stop deepening after any iteration under a time control.",
    "deterministic simulation: synctest bubble, simulated clock, seeded halt instants and gate credits")

chk("C17", "exploration", "DESIGN.md 5/C17",
    "Scheduled tier: 2..5 simulated clients issue tape-drawn Read/Write calls with unique payloads on one real table of 1..4 slots; they park before each call and at the table's own hook points (after the load, before each rank test, after a successful CAS), the seeded scheduler decides who advances; the history is checked with porcupine (partitioned by slot) against a one-slot model whose replacement relation is learned from the table's sequential behaviour; hits must return one single store's tuple; Used() within [0,1] at every quiescent point and equal to the occupied slots at the end. Free-running tier: the same kind of workload plus 'halted search still unwinding while its successor runs' under the race detector.",
    "Linearizability is judged against the table's own sequential behaviour. The 'no data race' clause is decided by the -race tier only (runtime monitoring, statistically replayable): a serialising scheduler adds happens-before edges and hides races.",
    "deterministic simulation: seeded interleavings at CAS/load hook points + porcupine linearizability; -race monitoring tier")
chk("C18", "exploration", "DESIGN.md 5/C18",
    "Several engines of one wiring (all four wirings, table off, noise off/on) in one bubble: a solo analysis first, then 2..3 engines with other Zobrist seeds (same seed when noise is on) analysing the same game side by side, the seeded scheduler interleaving their gated searches, optionally after a completed analysis of another position, then a repetition on one engine; every iteration (depth, score, PV, node count) must equal the solo run; Engine.Position() and all Engine.Board() getters compared before, during and after. Free-running tier: Analyze/Move/Analyze on one engine under the race detector (shared evaluator state and noise generator).",
    "With noise on only completed analyses are compared. Data races are decided by the -race tier only.",
    "deterministic simulation: several engines in one synctest bubble under a seeded scheduler vs solo runs; -race monitoring tier")

def main():
    props = [json.loads(l) for l in open('/verif/properties.jsonl')]
    ids = [p['id'] for p in props]
    checks = []
    for i in ids:
        if i not in CHECKS:
            continue
        level, ref, text, note, tech = CHECKS[i]
        checks.append({
            "property_id": i,
            "quick_cmd": f"./check {i} --tier quick",
            "thorough_cmd": f"./check {i} --tier thorough",
            "evidence_file": f"/verif/evidence/{i}.json",
            "replay_cmd_template": f"./check {i} --replay {{path}}",
            "engine": "dst",
            "level_claimed": {"category": level, "text": text, "design_ref": ref},
            "level_note": note,
            "technique": tech,
        })
    na = []
    for i in ids:
        if i in CHECKS:
            continue
        if i in NA_PURE:
            na.append({"property_id": i, "reason": NA_PURE[i]})
        else:
            na.append({"property_id": i, "reason": PENDING.get(i, "Simulation target per DESIGN.md, but its check is not built in this revision; not claimed until it is.")})
    hooks_commits = subprocess.run(["git", "-C", "/repo", "log", "--format=%H", "--grep=^verif hook"], capture_output=True, text=True).stdout.split()
    m = {
        "version": 1,
        "setup_cmd": "./setup.sh",
        "hooks": {
            "guard": "verif",
            "enable": "go1.26.8 test -c -tags verif (GOTOOLCHAIN=local GOFLAGS=-mod=mod GOPROXY=off), harness module /verif/sim with replace github.com/herohde/morlock => /repo",
            "baseline_off_cmd": "cd /repo && GOFLAGS=-mod=mod GOPROXY=off GOSUMDB=off go test -vet=off -count=1 ./...",
            "source_commits": hooks_commits,
            "add_only": True,
        },
        "engines": [{
            "name": "dst", "path": "/verif/sim",
            "serves_properties": [c["property_id"] for c in checks],
            "kind_free_text": "deterministic simulation with fault injection: one seed -> one choice tape -> one exactly repeatable run of the real code (S-A: UCI/engine/search-control in a testing/synctest bubble; S-B: board/search sessions vs reference models; S-C: transposition table under scheduled clients + porcupine); own delta-debugging shrinker; parent ./check + worker test binary",
        }],
        "checks": checks,
        "not_applicable": na,
        "notes": "All checks: exit 0 held / 1 VIOLATION / 2 harness trouble. known-findings.txt lists genuine defects recorded or fixed. See DESIGN.md.",
    }
    json.dump(m, open('/verif/MANIFEST.json', 'w'), indent=1)
    print("checks:", [c["property_id"] for c in checks], "na:", [n["property_id"] for n in na])

if __name__ == '__main__':
    main()
