#!/bin/bash
# runs every registered check (quick by default) on the current tree; prints one line per check
tier=${1:-quick}
extra=""; [ -n "$2" ] && extra="--budget $2"   # optional: wall budget per check in seconds (thorough tier)
cd ${VERIF_DIR:-/verif}
for p in $(python3 -c "import json;print(' '.join(c['property_id'] for c in json.load(open('MANIFEST.json'))['checks']))"); do
  out=$(./check $p --tier $tier $extra 2>&1); rc=$?
  echo "$p rc=$rc $(echo "$out" | tail -1 | cut -c1-160)"
  echo "$out" | grep -E "^VIOLATION|^KNOWN-FINDING|^HARNESS" | head -3
done
