#!/bin/bash
# Regression over the kept seeded changes: every patch under seeded/ is applied to a scratch copy of the
# repository, the quick check of the property it was written against is run, and the patch is undone.
#   vp run --with-repo -- tools/regress.sh          (works on the snapshots, /repo and /verif untouched)
#   FILTER='^(C04|w3-C04)' restricts it to the changes whose name matches the extended regular expression
# Output: one line per change (caught / MISSED / does not apply), and seeded/REGRESSION.txt in the snapshot.
export VERIF_DIR=$PWD
export GOFLAGS=-mod=mod GOPROXY=off GOSUMDB=off GOTOOLCHAIN=local
REPO=${VP_RUN_REPO:-/repo}
[ "$REPO" = "/repo" ] && { echo "refusing to patch /repo itself: run through vp run --with-repo"; exit 2; }
sed -i "s#=> /repo#=> $REPO#" sim/go.mod
export VERIF_REPO=$REPO
./setup.sh >/dev/null || exit 2
out=seeded/REGRESSION.txt; : > $out
for d in seeded/*/; do
  n=$(basename $d); [ -f $d/meta.json ] || continue
  [ -n "$FILTER" ] && ! echo "$n" | grep -Eq "$FILTER" && continue
  prop=$(python3 -c "import json;print(json.load(open('$d/meta.json'))['property'])")
  if ! git -C $REPO apply --check $PWD/$d/patch.diff 2>/dev/null; then echo "$n $prop does-not-apply" | tee -a $out; continue; fi
  git -C $REPO apply $PWD/$d/patch.diff
  o=$(./check $prop --no-shrink 2>&1); rc=$?
  kinds=$(echo "$o" | grep -E "^violation kind=" | sed 's/^violation kind=\([^ ]*\).*/\1/' | sort -u | tr '\n' ',')
  git -C $REPO checkout -- . ; git -C $REPO clean -fdq
  case $rc in 1) v=caught;; 0) v=MISSED;; *) v="exit-$rc";; esac
  echo "$n $prop $v $kinds" | tee -a $out
done
echo "done: $(grep -c caught $out) caught, $(grep -c MISSED $out) missed, $(grep -c does-not-apply $out) not applicable, $(grep -c exit- $out) trouble"
