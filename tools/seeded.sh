#!/bin/bash
# tools/seeded.sh <srcdir> <name> <demo-pkg-dir> <prop> [more props...]
#  1. confirms the seeded change in a scratch worktree: suite green with it, demo passes without / fails with;
#  2. applies it to /repo, runs the quick checks of the given properties, and undoes it.
#  Results are appended to /verif/seeded/<name>/result.txt (the caller writes meta.json).
export GOFLAGS=-mod=mod GOPROXY=off GOSUMDB=off
src=$1; name=$2; pkg=$3; shift 3; props="$@"
dst=/verif/seeded/$name; mkdir -p $dst
cp $src/patch.diff $dst/patch.diff; cp $src/notes.md $dst/notes.md 2>/dev/null
for f in $src/*_test.go $src/*.go $src/patch.orig.diff.txt; do [ -f "$f" ] && cp $f $dst/; done
wt=/root/.cache/verif-scratch/wt-$name; rm -rf $wt; mkdir -p /root/.cache/verif-scratch
git -C /repo worktree add -q --detach $wt HEAD || exit 2
res=$dst/result.txt; : > $res
demo=$(ls $dst/*_test.go | head -1)
cp $demo $wt/$pkg/zz_seeded_demo_test.go
( cd $wt && go test $DEMO_TAGS -vet=off -count=1 ./$pkg/ >/dev/null 2>&1 ) && echo "demo without change: PASS" >> $res || echo "demo without change: FAIL (unexpected)" >> $res
( cd $wt && git apply $dst/patch.diff ) || { echo "patch does not apply" >> $res; }
rm $wt/$pkg/zz_seeded_demo_test.go
( cd $wt && go build ./... && go test -vet=off -count=1 ./... >/dev/null 2>&1 ) && echo "existing suite with change: green" >> $res || echo "existing suite with change: RED (change rejected)" >> $res
cp $demo $wt/$pkg/zz_seeded_demo_test.go
( cd $wt && go test $DEMO_TAGS -vet=off -count=1 ./$pkg/ >/dev/null 2>&1 ) && echo "demo with change: PASS (unexpected)" >> $res || echo "demo with change: FAIL" >> $res
git -C /repo worktree remove --force $wt
# now against the checks
if git -C /repo apply --check $dst/patch.diff 2>/dev/null; then
  git -C /repo apply $dst/patch.diff
  for p in $props; do
    out=$(cd /verif && ./check $p --no-shrink 2>&1); rc=$?
    kinds=$(echo "$out" | grep -E "^violation kind=" | sed 's/^violation kind=\([^ ]*\).*/\1/' | sort -u | tr '\n' ',')
    echo "check $p: exit=$rc kinds=$kinds" >> $res
  done
  git -C /repo checkout -- . ; git -C /repo clean -fdq
else
  echo "patch does not apply to /repo" >> $res
fi
cat $res
