#!/bin/bash
# Run once after a fresh restore, offline: builds the parent and the worker from files on disk
# and runs the harness self-tests (M-rules perft, curated starts). Exit 2 = harness trouble.
export GOFLAGS=-mod=mod GOPROXY=off GOSUMDB=off GOTOOLCHAIN=local
set -e
cd /verif/sim
mkdir -p /verif/bin /verif/evidence /verif/replays
go1.26.8 build -o /verif/bin/check ./cmd/check
go1.26.8 test -c -tags verif -o /verif/bin/worker.test ./worker
VERIF_JOB='{"mode":"selftest"}' /verif/bin/worker.test -test.run '^TestWorker$' | grep -q '@@OK' || { echo "HARNESS-TROUBLE: self-test failed"; exit 2; }
echo "setup ok"
