#!/bin/bash
# Run once after a fresh restore, offline: builds the parent and the worker from files on disk
# and runs the harness self-tests (M-rules perft, curated starts). Exit 2 = harness trouble.
export GOFLAGS=-mod=mod GOPROXY=off GOSUMDB=off GOTOOLCHAIN=local
set -e
V=${VERIF_DIR:-/verif}
cd $V/sim
mkdir -p $V/bin $V/evidence $V/replays
go1.26.8 build -o $V/bin/check ./cmd/check
go1.26.8 test -c -tags verif -o $V/bin/worker.test ./worker
VERIF_JOB='{"mode":"selftest"}' $V/bin/worker.test -test.run '^TestWorker$' | grep -q '@@OK' || { echo "HARNESS-TROUBLE: self-test failed"; exit 2; }
echo "setup ok"
