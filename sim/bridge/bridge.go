// Package bridge converts between the model (rules) and /repo through the
// public, textual API only (square names, FEN, UCI move text).
package bridge

import (
	"fmt"

	"github.com/herohde/morlock/pkg/board"
	"github.com/herohde/morlock/pkg/board/fen"
	"verif/sim/rules"
)

var sqOf [64]board.Square // model square -> repo square
var sqBack [64]int        // repo square -> model square

func init() {
	for s := 0; s < 64; s++ {
		q, err := board.ParseSquareStr(rules.SqName(s))
		if err != nil {
			panic(err)
		}
		sqOf[s] = q
		sqBack[q] = s
	}
}

func Sq(s int) board.Square      { return sqOf[s] }
func ModelSq(q board.Square) int { return sqBack[q] }

func Kind(p board.Piece) rules.Piece {
	switch p {
	case board.Pawn:
		return rules.Pawn
	case board.Knight:
		return rules.Knight
	case board.Bishop:
		return rules.Bishop
	case board.Rook:
		return rules.Rook
	case board.Queen:
		return rules.Queen
	case board.King:
		return rules.King
	}
	return rules.Empty
}

func RepoPiece(k rules.Piece) board.Piece {
	switch k.Kind() {
	case rules.Pawn:
		return board.Pawn
	case rules.Knight:
		return board.Knight
	case rules.Bishop:
		return board.Bishop
	case rules.Rook:
		return board.Rook
	case rules.Queen:
		return board.Queen
	case rules.King:
		return board.King
	}
	return board.NoPiece
}

// ModelMove converts a repo move to the model's (from,to,promo).
func ModelMove(m board.Move) rules.Move {
	return rules.Move{From: ModelSq(m.From), To: ModelSq(m.To), Promo: Kind(m.Promotion)}
}

// FindRepoMove returns the move the position's own generator emits for the model move.
func FindRepoMove(pos *board.Position, turn board.Color, mm rules.Move) (board.Move, bool) {
	for _, m := range pos.PseudoLegalMoves(turn) {
		if ModelMove(m) == mm {
			return m, true
		}
	}
	return board.Move{}, false
}

// PosFromRepo reads a repo position through Square()/Castling()/EnPassant().
func PosFromRepo(pos *board.Position, turn board.Color) rules.Pos {
	var p rules.Pos
	for s := 0; s < 64; s++ {
		if c, k, ok := pos.Square(Sq(s)); ok {
			q := Kind(k)
			if c == board.Black {
				q = -q
			}
			p.B[s] = q
		}
	}
	p.WhiteT = turn == board.White
	cs := pos.Castling()
	p.Castle[rules.WK] = cs&board.WhiteKingSideCastle != 0
	p.Castle[rules.WQ] = cs&board.WhiteQueenSideCastle != 0
	p.Castle[rules.BK] = cs&board.BlackKingSideCastle != 0
	p.Castle[rules.BQ] = cs&board.BlackQueenSideCastle != 0
	p.EP = -1
	if e, ok := pos.EnPassant(); ok {
		p.EP = int8(ModelSq(e))
	}
	return p
}

// NewBoard builds a repo board from a FEN with the given Zobrist table.
func NewBoard(zt *board.ZobristTable, f string) (*board.Board, error) {
	pos, turn, np, fm, err := fen.Decode(f)
	if err != nil {
		return nil, err
	}
	if pos == nil {
		return nil, fmt.Errorf("nil position for %q", f)
	}
	return board.NewBoard(zt, pos, turn, np, fm), nil
}

func Color(white bool) board.Color {
	if white {
		return board.White
	}
	return board.Black
}
