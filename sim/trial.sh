#!/bin/bash
# dev helper: trial.sh PROP N [seed]
export GOFLAGS=-mod=mod GOPROXY=off GOSUMDB=off GOTOOLCHAIN=local
cd /verif/sim && go1.26.8 test -c -tags verif -o /verif/bin/worker.test ./worker || exit 2
VERIF_JOB='{"prop":"'$1'","mode":"gen","seed":'${3:-1}',"from":0,"to":'$2'}' /verif/bin/worker.test -test.run TestWorker | python3 -c "
import sys,json
for l in sys.stdin:
    if l.startswith('@@SUM'):
        s=json.loads(l[6:]); print('runs',s['runs'],'steps',s['steps'],'disc',s['discarded'],s.get('first_discard'),'nontriv',len(s['nontrivial_hashes'] or [])); print(' probes',s['probes']); print(' faults',s['faults']); print(' inconcl',s['inconclusive'])
        kinds={}
        for f in (s['found'] or []): kinds.setdefault(f['violations'][0]['kind'],[]).append(f)
        for k,fs in kinds.items():
            f=fs[0]; print(' FOUND',k,len(fs),'idx',f['index'],f['violations'][0]['detail'][:600])
    elif l.startswith('@@BEGIN'): pass
    elif l.startswith('@@'): print(l[:300])
    else: print(l[:300],end='')
"
