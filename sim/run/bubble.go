package run

import (
	"fmt"
	"os"
	"runtime"
	"testing"
	"testing/synctest"

	"verif/sim/core"
	"verif/sim/tape"
)

// InBubble executes a run inside a synctest bubble (fake clock, quiescence detection).
// If goroutines of the code under test are still blocked when the run ends, synctest
// panics in this goroutine; that is recorded as a probe, not as a verdict.
func InBubble(t *testing.T, spec *Spec, tp *tape.Tape) (res *core.RunResult) {
	defer func() {
		if r := recover(); r != nil {
			if res == nil {
				res = core.NewResult()
				res.Discarded = fmt.Sprint("bubble: ", r)
				return
			}
			res.Probes["goroutines-left-blocked-at-end"]++
		}
	}()
	synctest.Test(t, func(t *testing.T) {
		// a panic of the controller itself is harness trouble, never a verdict about /repo
		defer func() {
			if r := recover(); r != nil {
				HarnessPanic(r)
			}
		}()
		res = spec.Run(tp)
	})
	return res
}

// HarnessPanic reports a bug of the simulator itself and ends the worker with exit status 2.
func HarnessPanic(r any) {
	buf := make([]byte, 1<<16)
	n := runtime.Stack(buf, false)
	fmt.Fprintf(os.Stdout, "@@ERR %q\n", fmt.Sprintf("harness panic: %v\n%s", r, buf[:n]))
	os.Exit(2)
}
