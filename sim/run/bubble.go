package run

import (
	"fmt"
	"os"
	"runtime"
	"testing"
	"testing/synctest"

	"github.com/herohde/morlock/pkg/simhook"
	"verif/sim/core"
	"verif/sim/tape"
)

// InBubble executes a run inside a synctest bubble (fake clock, quiescence detection).
// If goroutines of the code under test are still blocked when the run ends, synctest
// panics in this goroutine; that is recorded as a probe, not as a verdict.
func InBubble(t *testing.T, spec *Spec, tp *tape.Tape) (res *core.RunResult) {
	defer simhook.Set(nil)
	defer func() {
		if r := recover(); r != nil {
			if res == nil {
				res = core.NewResult()
				res.Discarded = fmt.Sprint("bubble: ", r)
				return
			}
			res.Probes["goroutines-left-blocked-at-end"]++
			judgeRunaway(spec, res)
		}
	}()
	synctest.Test(t, func(t *testing.T) {
		// a panic of the controller itself is harness trouble, never a verdict about /repo
		defer func() {
			if r := recover(); r != nil {
				HarnessPanic(r)
			}
		}()
		res = spec.Run(tp)
	})
	judgeRunaway(spec, res)
	return res
}

// judgeRunaway: a task that kept passing hook points for ever during the teardown (everything halted,
// the root context cancelled) was stopped by the kernel. For the properties that promise that a halted
// search ends / the driver shuts down this is a verdict; for the others the run has none.
func judgeRunaway(spec *Spec, res *core.RunResult) {
	if res == nil || res.Runaway == "" || len(res.Violations) > 0 {
		return
	}
	if spec.RunawayKind == "" {
		res.Inconclusive["runaway-task-in-teardown"]++
		return
	}
	res.Violate(spec.Prop, spec.RunawayKind, res.Steps, "after the session had halted every search and cancelled the context everything was launched with, a task of the code under test kept running: it passed 200000 hook points (the last one: %s) without ending", res.Runaway)
}

// HarnessPanic reports a bug of the simulator itself and ends the worker with exit status 2.
func HarnessPanic(r any) {
	buf := make([]byte, 1<<16)
	n := runtime.Stack(buf, false)
	fmt.Fprintf(os.Stdout, "@@ERR %q\n", fmt.Sprintf("harness panic: %v\n%s", r, buf[:n]))
	os.Exit(2)
}
