package run

import (
	"testing"
	"testing/synctest"

	"verif/sim/core"
	"verif/sim/tape"
)

// InBubble executes a run inside a synctest bubble (fake clock, quiescence detection).
func InBubble(t *testing.T, spec *Spec, tp *tape.Tape) *core.RunResult {
	var res *core.RunResult
	synctest.Test(t, func(t *testing.T) {
		res = spec.Run(tp)
	})
	return res
}
