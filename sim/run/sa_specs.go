package run

import (
	"verif/sim/core"
	"verif/sim/sa"
	"verif/sim/sb"
	"verif/sim/sc"
	"verif/sim/tape"
)

// c12Run: poll enumeration on single searches (S-B) and analysis-level halting sessions (S-A) in turn.
func c12Run(t *tape.Tape) *core.RunResult {
	if t.Chance(1, 2) {
		return sa.SessionC12Iter(t)
	}
	return sb.SearchSessionC12(t)
}

func init() {
	register(&Spec{Prop: "C16", RunawayKind: "task-never-ends", RaceTier: true, QuickRuns: 3000, Level: "exploration", NeedsBubble: true, CrashIsViolation: true,
		Rule: "one run = one adversarial UCI session inside a synctest bubble: 4..40 lines (position one ply further/back along a base line so that the side to move alternates, every go variant, stop, isready, ucinewgame, setoption, torn / garbage / duplicated lines), delivered at tape-chosen moments while searches are parked mid-tree, forwarders and timers parked at their hooks, the clock advanced and the consumer stalled; it ends with quit or EOF, possibly mid-search. Judged: no panic in any goroutine (the worker process dying), no deadlock at a quiescent point, readyok per isready, every bestmove belongs to the go the driver last took and is legal in its position (stale answers are illegal by construction), at most one per go, output closed and Closed() fired after quit/EOF, no exit without quit/EOF/ill-formed input. Non-trivial = at least one go and >= 10 scheduling events; distinct = hash of the (task, point)/stimulus sequence",
		Real: saReal, Stub: saStub,
		Assumptions: []string{"a command takes effect when the command loop takes it (released from loop.recv), not when it is written to the input channel", "exiting on ill-formed input is the code's documented choice and accepted; continuing is accepted too", "data races as such are invisible to a serialising scheduler: they are the business of the free-running -race tier (DESIGN.md 2.7)"},
		Run:         sa.SessionC16})
	register(&Spec{Prop: "C10", QuickRuns: 3000, Level: "exploration", NeedsBubble: true, CrashIsViolation: false,
		Rule: "one run = one UCI session of 2..15 position / ucinewgame / isready / go commands inside a synctest bubble; each position is unrelated, an extension by 1..4 legal moves, the same text again, a shortened text, or a prefix trap (a FEN whose move number grows by a digit) relative to the previous one, optionally while the previous go's search is still parked mid-tree. After each position command, at a quiescent point: Engine.Position() vs the model game of that command alone; full FEN, ply, clocks, result and the per-ply results of a probe continuation (reversible moves that revisit earlier positions) vs a fresh engine on which the line was set up from scratch. Non-trivial = at least two judged commands; distinct = hash of the delivered lines",
		Real: saReal, Stub: saStub,
		Assumptions: []string{"only well-formed commands with legal moves (ill-formed input is C16's)", "clock values against the FEN standard are C14's business: here the reference for clocks is the same engine code set up from scratch"},
		Run:         sa.SessionC10})
	register(&Spec{Prop: "C15", RunawayKind: "search-does-not-end", QuickRuns: 4000, Level: "exploration", NeedsBubble: true, CrashIsViolation: true,
		Rule:        "one run = one Iterative.Launch on a live board with history inside a synctest bubble: tape-drawn search configuration behind the gate, depth limit 0..max, optional real table, optional TimeControl (1 ms..10 min, 0..40 moves to go), 0..2 halter tasks calling Handle.Halt() at tape-chosen steps (before the first evaluation, between iterations, after the natural end, twice, together with the hard timer), a reader that keeps up or lags; the controller interleaves gate credits, hook releases, reads and clock advances. Judged: depths increasing (consecutive when the reader keeps up), each iteration equal to a direct fixed-depth search (table off), natural end exactly at the limit / at a forced mate within depth, Halt() never before depth 1 and never shallower than what was reported before it was requested and equal to a direct search at its depth, hard <= clock and soft <= hard, channel closes after halt/limit/hard timer once everything runs. Non-trivial = at least one iteration read and >= 5 scheduling events; distinct = hash of the (task, point) sequence",
		Real:        []string{"pkg/search/searchctl (Iterative, handle, TimeControl, EnforceTimeControl)", "pkg/search (AlphaBeta, Quiescence, table)", "seekerror/stdlib iox.AsyncCloser, contextx.WithQuitCancel", "time (synctest fake clock)"},
		Stub:        []string{"harness-supplied position-determined evaluator behind the gate", "the reader and the halters are simulator tasks"},
		Assumptions: []string{"iteration contents are compared with table off only (a table defect is C11's)", "the soft limit may end the analysis after any iteration when a time control is set"},
		Run:         sa.SessionC15})
	register(&Spec{Prop: "C18", RaceTier: true, QuickRuns: 1500, Level: "exploration", NeedsBubble: true, CrashIsViolation: false,
		Rule: "one run = one wiring (morlock, TUROCHAMP, SARGON, BERNSTEIN; table off; noise off or on), one game with history and one depth: first a solo analysis on a fresh engine in an otherwise idle bubble, then 2..3 further engines (different Zobrist seeds when noise is off, the same seed when it is on), optionally each after a completed analysis of another position, analysing the same game side by side with the seeded scheduler deciding whose gated search advances and by how much; finally the first engine repeats the analysis. With noise and table off the solo run's last iteration is also compared with the same root search called directly on a board on which the game was replayed and never forked; one session in three plays a move and takes it back on the side-by-side engines first; in a third of the noise-free sessions with a predecessor that predecessor ran with noise on. Every completed iteration (depth, score, PV, node count) must equal the solo run's; Engine.Position() and all Engine.Board() getters are compared before, during (at quiescent points) and after each analysis. Non-trivial = at least one iteration and >= 6 scheduling events; distinct = hash of the (task, point) sequence",
		Real: saReal, Stub: saStub,
		Assumptions: []string{"with noise on, only histories of completed analyses are compared (how many evaluations a halted search consumes is schedule-dependent by nature)", "data races on shared evaluator state are the -race tier's business", "the independent reference (noise and table off) calls the wiring's root search directly with the search context Iterative uses today (full window, no table, no noise) on a board replayed move by move: an engine that starts iterations with another window would need that mirrored here"},
		Run:         sa.SessionC18})
	register(&Spec{Prop: "C17", RaceTier: true, QuickRuns: 6000, Level: "exploration", NeedsBubble: true, CrashIsViolation: true,
		Rule: "one run = 2..5 simulated clients with 2..8 tape-drawn Read/Write calls each (unique payload per store) on one real table of 1, 2 or 4 slots and 2..5 hashes (several per slot); clients park before each call and at the table's hook points (after the load in Read, before each rank test and after a successful CAS in Write) and the seeded scheduler decides who advances. The recorded history (stamped with a global event counter) is checked with porcupine, partitioned by slot, against a one-slot model whose replacement relation was learned from the real table's sequential behaviour; every hit must return a tuple one single store wrote; Used() in [0,1] at every quiescent point and equal to the number of occupied slots at the end. One run in six is an engine-level session instead (real engines with the table on, one Zobrist seed, inside the same kind of bubble as C18's): after earlier completed or client-halted analyses and an Engine.Reset, each iteration of a completed analysis must report exactly the fill fraction the same analysis reports on a fresh engine, and every reported fraction lies in [0,1]. A free-running -race tier runs the same kind of workload with real goroutines (runtime monitoring, not replayable). Non-trivial = at least 6 operations; distinct = hash of the (task, point) sequence",
		Real: []string{"pkg/search transposition table (Read, Write, Used, val)", "engine-level sessions: pkg/engine (Reset, Move, Analyze, Halt), searchctl.Iterative, pkg/search AlphaBeta with the real table"}, Stub: []string{"clients are simulator tasks; no search runs in the table-level sessions", "engine-level sessions: harness-supplied evaluator behind the gate (as in C18)"},
		Assumptions: []string{"linearizability is judged against the table's own sequential behaviour (a change of replacement policy is not a violation)", "porcupine Unknown (timeout) is counted as inconclusive", "data races are decided only by the -race tier"},
		Run: func(t *tape.Tape) *core.RunResult {
			if t.Chance(1, 6) {
				return sa.SessionC17Engine(t)
			}
			return sc.Session(t)
		}})
}
