package run

import "verif/sim/sa"

func init() {
	register(&Spec{Prop: "C16", QuickRuns: 3000, Level: "exploration", NeedsBubble: true, CrashIsViolation: true,
		Rule: "one run = one adversarial UCI session inside a synctest bubble: 4..40 lines (position one ply further/back along a base line so that the side to move alternates, every go variant, stop, isready, ucinewgame, setoption, torn / garbage / duplicated lines), delivered at tape-chosen moments while searches are parked mid-tree, forwarders and timers parked at their hooks, the clock advanced and the consumer stalled; it ends with quit or EOF, possibly mid-search. Judged: no panic in any goroutine (the worker process dying), no deadlock at a quiescent point, readyok per isready, every bestmove belongs to the go the driver last took and is legal in its position (stale answers are illegal by construction), at most one per go, output closed and Closed() fired after quit/EOF, no exit without quit/EOF/ill-formed input. Non-trivial = at least one go and >= 10 scheduling events; distinct = hash of the (task, point)/stimulus sequence",
		Real: saReal, Stub: saStub,
		Assumptions: []string{"a command takes effect when the command loop takes it (released from loop.recv), not when it is written to the input channel", "exiting on ill-formed input is the code's documented choice and accepted; continuing is accepted too", "data races as such are invisible to a serialising scheduler: they are the business of the free-running -race tier (DESIGN.md 2.7)"},
		Run: sa.SessionC16})
}
