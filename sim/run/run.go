// Package run maps a property id to the simulated run that decides it.
package run

import (
	"fmt"

	"verif/sim/core"
	"verif/sim/rules"
	"verif/sim/sa"
	"verif/sim/sb"
	"verif/sim/tape"
)

// Runner executes one run of a property's check from a tape.
type Runner func(t *tape.Tape) *core.RunResult

type Spec struct {
	Prop             string   `json:"prop"`
	Run              Runner   `json:"-"`
	QuickRuns        int      `json:"quick_runs"`       // runs in the quick tier
	ThoroughSeconds  int      `json:"thorough_seconds"` // wall budget of the thorough tier
	Level            string   `json:"level"`            // evidence level
	Rule             string   `json:"rule"`             // how cases are generated and what makes one non-trivial / distinct
	CrashIsViolation bool     `json:"crash_is_violation"`
	RunawayKind string // violation kind for a task that never ends during the teardown ("" = not this property's business)
	NeedsBubble      bool     `json:"needs_bubble"`
	Real             []string `json:"real"`
	Stub             []string `json:"stub"`
	Assumptions      []string `json:"assumptions"`
	RaceTier         bool     `json:"race_tier"` // the check also runs the free-running -race workloads of the property
}

var Specs = map[string]*Spec{}

func register(s *Spec) {
	if s.ThoroughSeconds == 0 {
		s.ThoroughSeconds = 900
	}
	Specs[s.Prop] = s
}

var saReal, saStub []string

var sbReal = []string{"pkg/board (Board, Position, ZobristTable, move generation)", "pkg/board/fen"}
var sbStub = []string{"none: S-B drives the real types directly; the reference side is verif/sim/rules (mailbox rules, game-as-list)"}

func init() {
	const ruleSB = "one run = one tape-decoded S-B session: start FEN, Zobrist seed, swarm weights, then 4..320 operations (push legal / push generator-emitted-illegal / take-back / fork / drop / adjudicate) over up to 4 live boards; every oracle of the property is evaluated after every operation. Non-trivial = at least 5 pushes and at least one take-back or fork; distinct = distinct hash of the decoded operation trace"
	for _, p := range []string{"C02", "C05", "C07", "C08"} {
		p := p
		register(&Spec{CrashIsViolation: true, Prop: p, QuickRuns: 24000, Level: "exploration", Rule: ruleSB, Real: sbReal, Stub: sbStub,
			Assumptions: []string{"verif/sim/rules (mailbox rules + game-as-list) is the reference; validated by perft against published counts before every check",
				"moves are offered to PushMove only if the position's own generator emits them; boards are never popped below the fork point of a live relative (documented contracts)",
				"sampling: a clean batch is evidence, not proof"},
			Run: func(t *tape.Tape) *core.RunResult { return sb.BoardSession(t, []string{p}) }})
	}
	register(&Spec{CrashIsViolation: true, Prop: "C14", QuickRuns: 24000, Level: "exploration",
		Rule: "one run = either an S-B board session (FEN codec round trip both ways at every state visited, model-drawn and tape-drawn clocks) or an engine history (Engine.Reset with tape-drawn clocks / Move / TakeBack, 3..250 calls) with Engine.Position() compared to the standard FEN of the model game after every call. Non-trivial = at least one take-back or fork and several moves; distinct = distinct hash of the decoded operation trace",
		Real: append([]string{"pkg/engine (Engine.Reset/Move/TakeBack/Position)"}, sbReal...), Stub: sbStub,
		Assumptions: []string{"verif/sim/rules is the reference for positions and for the FEN clock definitions", "the all-strings half of the codec statement is C19's (not claimed)", "sampling: a clean batch is evidence, not proof"},
		Run: func(t *tape.Tape) *core.RunResult {
			if t.Chance(1, 2) {
				return sb.EngineSession(t)
			}
			return sb.BoardSession(t, []string{"C14"})
		}})
	register(&Spec{CrashIsViolation: true, Prop: "C03", QuickRuns: 12000, Level: "exploration",
		Rule: "one run = a tape-drawn game history (start FEN, 0..14 plies with repetition bias) followed by 1..3 real AlphaBeta.Search calls on the live board (depth 1..5 by material, full or selective exploration, static or quiescence leaf, seeded evaluation and move ordering), each compared with exhaustive negamax of the model game over the same moves and leaves (value via an independent integer score model, PV legality and optimality of its first move, board handed back unchanged). Non-trivial = a search was judged on a game with >= 2 plies of history; distinct = hash of the decoded trace",
		Real: []string{"pkg/search (AlphaBeta, Quiescence, Leaf, exploration)", "pkg/eval (Score)", "pkg/board"}, Stub: []string{"leaf evaluator and exploration predicates are harness-supplied position-determined functions, applied identically to the real search and to M-search (verif/sim/msearch)"},
		Assumptions: []string{"reference = verif/sim/msearch on verif/sim/rules; repo's own Minimax is not the oracle", "value at a root that is already drawn is not judged (sentence leaves it open); over-budget reference searches are counted as inconclusive", "sampling: a clean batch is evidence, not proof"},
		Run:         sb.SearchSessionC03})
	register(&Spec{CrashIsViolation: true, Prop: "C11", QuickRuns: 6000, Level: "exploration",
		Rule: "one run in five is an engine-level session (two real engines, same wiring and Zobrist seed, one with a 1..2 MB table and one without, taken through the same 2..4 games with noise switched on and off between them, Reset, moves, take-backs and analyses run to completion; with noise off every iteration must report the same score on both). The other runs: one run = a game history, one real table of tape-drawn size (2..65536 slots, optionally behind the min-depth-1 write filter) wrapped in a recording table, then 1..4 rounds of iterative deepening 1..d with the game advancing 1..2 plies (or going back one: always after a materially drawn root, which is searched unjudged) between rounds and an occasional halted search in between; judged per search: root score vs the same search without table, PV first move's no-table value, every (sampled) exact store vs the no-table value of the forked position at that depth, every hit vs the last store let through. Non-trivial = at least 2 judged searches and at least one table hit; distinct = hash of the decoded trace",
		Real: []string{"pkg/search (AlphaBeta, Quiescence, table, WriteLimited)", "pkg/board", "pkg/engine (Reset, Move, TakeBack, SetNoise, Analyze) and searchctl.Iterative in the engine-level sessions (free-running goroutines, one search at a time)"}, Stub: []string{"recording wrapper around the real table; harness-supplied position-determined evaluator and exploration"},
		Assumptions: []string{"differential baseline: the repo's own AlphaBeta with NoTranspositionTable", "sessions are excluded from the first search in which a repetition/fifty-move draw could arise inside the tree (sufficient condition: all game positions distinct, depth <= 5, clock+depth < 100)", "exact stores are sampled (every 1st..3rd) in the quick tier"},
		Run: func(t *tape.Tape) *core.RunResult {
			if t.Chance(1, 5) {
				return sb.EngineSessionC11(t)
			}
			return sb.SearchSessionC11(t)
		}})
	register(&Spec{CrashIsViolation: true, Prop: "C12", QuickRuns: 1200, Level: "fault_enumeration", NeedsBubble: true, RunawayKind: "search-does-not-end",
		Rule: "every other run is an analysis-level session (Iterative.Launch inside a synctest bubble, as in C15, but always with halters: Handle.Halt by one or two simulated clients, the launch context cancelled, the hard-limit timer, at tape-chosen instants while the search is parked mid-tree; judged: whatever is reported after the halt was requested is a completed iteration's true result, the board is as handed over once Halt has returned and once the analysis has ended, and it ends). The other runs: one run = one search (AlphaBeta full/selective/quiescence, Minimax, or AlphaBeta with SARGON's check-extension leaf) on a live board with history, with a fresh or pre-filled real table of tape-drawn size; its cancellation polls are counted (P) and the search is rerun with the context cancelled at exactly the n-th poll for every n<=P (P<=250), else the first 80, last 80 and 90 tape-drawn polls. evaluations = halted searches; each is judged on: ErrHalted and no result, every board getter unchanged, every store after the halt verified against the no-table value of the forked position, and two follow-up searches on the same table compared with a twin table on which the halted search never ran. Non-trivial = at least 10 polls enumerated; distinct = hash of the decoded trace",
		Real: []string{"pkg/search (AlphaBeta, Quiescence, Minimax, table)", "pkg/search/searchctl (Iterative, handle, EnforceTimeControl) in the analysis-level sessions", "cmd/sargon/sargon (OnePlyIfChecked)", "pkg/board", "seekerror/stdlib contextx.IsCancelled"}, Stub: []string{"context.Context replaced by a counting context whose Done() closes at the n-th call (the cancellation seam); harness-supplied evaluator/exploration; recording wrapper around the real table"},
		Assumptions: []string{"cancellation is observed only through ctx.Done() polls (true for contextx.IsCancelled)", "follow-up comparison only where no repetition/fifty-move draw can arise in the tree and the root is not already drawn", "stop and the UCI timers reaching the search through the driver are exercised by C16/C04"},
		Run:         c12Run})
	saReal = []string{"pkg/engine/uci (Driver)", "pkg/engine (Engine)", "pkg/search/searchctl (Iterative, TimeControl)", "pkg/search, pkg/eval, pkg/board", "cmd/{turochamp,sargon,bernstein} evaluators, move filters and books", "seekerror/stdlib iox/contextx", "time (testing/synctest fake clock)"}
	saStub = []string{"the four main() functions (their ~10-line engine wiring is repeated in verif/sim/sa/engines.go; morlock's 64 MB default table replaced by 1 MB)", "stdin/stdout line pumps replaced by simulator channels", "every leaf evaluator wrapped in the gate (inner evaluator is the real one)", "Book wrapped to sort its answer (map iteration order)", "glog output discarded"}
	register(&Spec{Prop: "C04", RaceTier: true, QuickRuns: 2000, Level: "exploration", NeedsBubble: true, CrashIsViolation: true,
		Rule: "one run = one UCI session of a polite GUI against a tape-drawn engine wiring and option set inside a synctest bubble: 3..22 commands (position startpos/fen/extended/repeated/shortened, every go variant, stop, isready, setoption, ucinewgame), with the controller interleaving command delivery, search progress (gate credits), hooked task releases, clock advances and consumer stalls from the tape; an obligation tracker demands exactly one legal bestmove per go (0000 only without legal move; go infinite only after stop), and a settle phase decides liveness. Non-trivial = at least one go and >= 10 scheduling events; distinct = hash of the (task, point)/stimulus sequence",
		Real: saReal, Stub: saStub,
		Assumptions: []string{"legality judged by verif/sim/rules", "scheduling freedom exists at the gate and at the simhook points; goroutines woken in the same step run in parallel until their next park point", "liveness is judged only in the settle phases: the ordinary one (all tasks released fairly, time passing to every known timer instant and beyond), and, when the evaluation budget is gone while a go that only a clock can end is open and its search has reported an iteration, a clock settle (every limit passes, every task released 80 times with 250 further evaluations each)"},
		Run:         sa.SessionC04})
}

// SelfTest validates the harness' own oracles; an error is harness trouble (exit 2).
func SelfTest() error {
	if err := rules.SelfTest(); err != nil {
		return err
	}
	if err := sb.ValidateStarts(); err != nil {
		return err
	}
	return nil
}

func Get(prop string) (*Spec, error) {
	s, ok := Specs[prop]
	if !ok {
		return nil, fmt.Errorf("no check for property %q", prop)
	}
	return s, nil
}
