package sa

import (
	"context"
	"fmt"
	"strings"

	"github.com/herohde/morlock/pkg/board"
	"github.com/herohde/morlock/pkg/engine"
	"github.com/herohde/morlock/pkg/eval"
	"github.com/herohde/morlock/pkg/search"
	"verif/sim/bridge"
	"verif/sim/core"
	"verif/sim/rules"
	"verif/sim/tape"
)

// SessionC10: sequences of position / ucinewgame commands (with searches and halts in between);
// after each, the engine's game must be the one the last position command describes.
func SessionC10(t *tape.Tape) *core.RunResult {
	res := core.NewResult()
	k := NewKernel(t, res)
	defer k.Uninstall()
	k.PassThrough("tt.read", "tt.loaded", "tt.cas", "iter.searched", "halt.enter", "halt.closed", "fwd.pv", "loop.ponder", "loop.afterAnalyze", "complete.cas", "fwd.done", "loop.exit")
	w, opts := drawWiring(t)
	opts.Noise = 0
	s := newUCISim(k, t, res, w, opts)
	s.frugal = true
	res.Tracef("engine=%s options=%+v", w, opts)
	ztSeed := int64(t.Choose(1 << 16))

	var last posCmd
	have := false
	nCmds := t.Range(2, core.Scale(15, 40))
	judged := 0
	kinds := map[string]int{}
	finish := func() *core.RunResult {
		res.Steps = s.steps
		res.TraceHash = core.HashStrings(append([]string{}, s.delivered...))
		res.NonTrivial = judged >= 2
		res.Digest = fmt.Sprintf("%016x/%d", k.InterleavingHash(), judged)
		for kd, n := range kinds {
			res.Probes["successor-"+kd] += n
		}
		s.teardown()
		return res
	}
	idle := func() bool { return (s.canDeliver() && !s.k.LockHeld()) || s.outClosed }

	s.sync()
	for i := 0; i < nCmds; i++ {
		if !s.settle(idle, 300) || s.outClosed {
			break
		}
		// what comes next
		switch t.Weighted([]int{10, 2, 2, 3, 2}) {
		case 1:
			s.deliver("ucinewgame")
			res.Probe("ucinewgame")
			continue
		case 2:
			s.deliver("isready")
			continue
		case 4:
			// options changed in mid-game: they must not touch the game
			s.deliver([]string{"setoption name Hash value 1", "setoption name Hash value 0", "setoption name Hash value 2", "setoption name Depth value 2", "setoption name Noise value 0", "setoption name OwnBook value false", "setoption name OwnBook value true"}[t.Choose(7)])
			res.Probe("setoption-between-positions")
			continue
		case 3:
			// a search between the set-ups; it is left parked mid-tree (or finished) when the next command arrives
			line := []string{"go depth 1", "go depth 2", "go infinite", "go movetime 1000"}[t.Choose(4)]
			s.deliver(line)
			for n := t.Choose(12); n > 0 && !s.outClosed; n-- {
				s.stepRandom(func() string { return "" }, 0, 1)
			}
			if k.FindParked("search") != nil {
				res.Probe("next-command-while-search-live")
			}
			continue
		}
		var pc posCmd
		kind := "unrelated"
		ks := []int{4, 0, 0, 0, 0, 0} // unrelated | extension | same again | shortened | prefix trap | same position as a FEN
		if have {
			ks = []int{3, 5, 2, 2, 2, 2}
		}
		switch t.Weighted(ks) {
		case 0:
			if t.Chance(1, 2) {
				gm, _ := rules.NewGame(startFEN)
				randomLine(t, gm, t.Choose(14), t.Choose(8))
				pc = buildPosCmd(startFEN, gm)
			} else {
				st := uciStarts[t.Choose(len(uciStarts))]
				gm, _ := rules.NewGame(st)
				randomLine(t, gm, t.Choose(10), t.Choose(8))
				pc = buildPosCmd(st, gm)
			}
		case 1:
			kind = "extension"
			gm := last.game.Clone()
			randomLine(t, gm, t.Range(1, 4), t.Choose(10))
			if len(gm.Moves) == len(last.game.Moves) {
				kind = "same-again"
			}
			pc = buildPosCmd(gm.Start.FEN(gm.StartHalf, gm.StartFull), gm)
		case 2:
			kind = "same-again"
			pc = last
		case 3:
			kind = "shortened"
			gm := last.game.Clone()
			if n := len(gm.Moves); n > 0 {
				gm.Moves = gm.Moves[:n-1-t.Choose(min(n, 4))]
			}
			pc = buildPosCmd(gm.Start.FEN(gm.StartHalf, gm.StartFull), gm)
		case 5:
			// the position the engine already stands on, but described as a bare FEN (+ moves): a game
			// without the history that led there
			kind = "same-position-as-fen"
			cur := last.game.Pos()
			gm := &rules.Game{Start: cur, StartHalf: last.game.Half(), StartFull: last.game.Full()}
			randomLine(t, gm, t.Choose(5), t.Choose(10))
			pc = buildPosCmd(gm.Start.FEN(gm.StartHalf, gm.StartFull), gm)
		case 4:
			// the previous text is a proper string prefix of the new one without the new one continuing it:
			// a FEN (no moves) whose full-move number grows by a digit
			kind = "prefix-trap"
			st := uciStarts[t.Choose(len(uciStarts))]
			p, h, f := rules.MustFEN(st)
			gm := &rules.Game{Start: p, StartHalf: h, StartFull: f}
			first := buildPosCmd(st, gm)
			if !s.deliver(first.text) || !s.settle(idle, 300) || s.outClosed {
				goto out
			}
			gm2 := &rules.Game{Start: p, StartHalf: h, StartFull: f*10 + t.Choose(10)}
			pc = buildPosCmd(gm2.Start.FEN(gm2.StartHalf, gm2.StartFull), gm2)
		}
		kinds[kind]++
		if !s.deliver(pc.text) {
			break
		}
		last, have = pc, true
		if !s.settle(idle, 400) {
			if s.budgetHit {
				res.Inconclusive["evaluation-budget"]++
				return finish()
			}
			res.Violate("C10", "driver-stuck", s.steps, "after %q the command loop does not come back to its input", pc.text)
			return finish()
		}
		if s.outClosed {
			res.Violate("C10", "driver-exited", s.steps, "the driver exited on the well-formed command %q (kind: %s; previous: %q)", pc.text, kind, prevText(s.delivered))
			return finish()
		}
		judged++
		if !checkC10(res, s, pc, kind, w, ztSeed, t) {
			return finish()
		}
	}
out:
	return finish()
}

func prevText(d []string) string {
	for i := len(d) - 2; i >= 0; i-- {
		if strings.HasPrefix(d[i], "position") {
			return d[i]
		}
	}
	return ""
}

// checkC10 compares the engine behind the driver with (a) the model game of the last command and
// (b) a fresh engine on which that game was set up from scratch.
func checkC10(res *core.RunResult, s *uciSim, pc posCmd, kind string, w Wiring, ztSeed int64, t *tape.Tape) bool {
	ctx := context.Background()
	e := s.b.E
	got := e.Position()
	cur := pc.game.Pos()
	gf := strings.Fields(got)
	if len(gf) != 6 || strings.Join(gf[:4], " ") != cur.FEN4() {
		res.Violate("C10", "position-differs", s.steps, "after %q (%s of the previous command) the engine is at %q, the command describes %q", pc.text, kind, got, pc.game.FEN())
		return false
	}
	// the clocks the command describes (start clocks counted on by the model game)
	if want := fmt.Sprintf("%d %d", pc.game.Half(), pc.game.Full()); gf[4]+" "+gf[5] != want {
		res.Violate("C10", "clocks-differ", s.steps, "after %q (%s) the engine reports the clocks %s %s; the game the command describes has %s (half-move clock, full-move number)", pc.text, kind, gf[4], gf[5], want)
		return false
	}
	// from scratch on a fresh engine
	ref := engine.New(ctx, "ref", "verif", search.AlphaBeta{Eval: search.Leaf{Eval: eval.Material{}}}, engine.WithZobrist(ztSeed))
	if err := ref.Reset(ctx, pc.game.Start.FEN(pc.game.StartHalf, pc.game.StartFull)); err != nil {
		res.Discarded = "reference engine rejects the start position"
		return false
	}
	for _, m := range pc.game.Moves {
		if err := ref.Move(ctx, m.UCI()); err != nil {
			res.Discarded = "reference engine rejects a legal move"
			return false
		}
	}
	if want := ref.Position(); got != want {
		res.Violate("C10", "clocks-differ", s.steps, "after %q (%s) the engine reports %q; set up from scratch it reports %q", pc.text, kind, got, want)
		return false
	}
	b1, b2 := e.Board(), ref.Board()
	if b1.Ply() != b2.Ply() || b1.NoProgress() != b2.NoProgress() || b1.FullMoves() != b2.FullMoves() || b1.Turn() != b2.Turn() {
		res.Violate("C10", "counters-differ", s.steps, "after %q (%s): ply/noprogress/fullmoves %d/%d/%d, from scratch %d/%d/%d", pc.text, kind, b1.Ply(), b1.NoProgress(), b1.FullMoves(), b2.Ply(), b2.NoProgress(), b2.FullMoves())
		return false
	}
	if (b1.Result().Outcome == board.Draw) != (b2.Result().Outcome == board.Draw) {
		res.Violate("C10", "result-differs", s.steps, "after %q (%s): result %v, from scratch %v", pc.text, kind, b1.Result(), b2.Result())
		return false
	}
	// probe continuation: a reversible line played on both forks; the results after each ply expose the history used for repetition detection
	gm := pc.game.Clone()
	for i := 0; i < 12; i++ {
		p := gm.Pos()
		legal := p.LegalMoves()
		if len(legal) == 0 {
			break
		}
		var m rules.Move
		picked := false
		// prefer undoing the own previous move (repetitions with the history), else a quiet move
		if n := len(gm.Moves); n >= 2 {
			rev := rules.Move{From: gm.Moves[n-2].To, To: gm.Moves[n-2].From}
			if p.IsLegal(rev) && t.Chance(3, 4) {
				m, picked = rev, true
			}
		}
		if !picked {
			var quiet []rules.Move
			for _, x := range legal {
				in := p.Describe(x)
				if in.Capture == rules.Empty && in.Piece != rules.Pawn && !in.Castle {
					quiet = append(quiet, x)
				}
			}
			if len(quiet) == 0 {
				break
			}
			m = quiet[t.Choose(len(quiet))]
		}
		m1, ok1 := bridge.FindRepoMove(b1.Position(), b1.Turn(), m)
		m2, ok2 := bridge.FindRepoMove(b2.Position(), b2.Turn(), m)
		if !ok1 || !ok2 {
			break
		}
		r1, r2 := b1.PushMove(m1), b2.PushMove(m2)
		gm.Moves = append(gm.Moves, m)
		if r1 != r2 || b1.Result() != b2.Result() {
			res.Violate("C10", "history-differs", s.steps, "after %q (%s) a continuation (%s) gives %v/%v on the engine's board and %v/%v on a board set up from scratch: the history used for repetition detection differs", pc.text, kind, movesUCI(gm.Moves[len(pc.game.Moves):]), r1, b1.Result(), r2, b2.Result())
			return false
		}
		// ... and against the game itself (an independent count of occurrences, the root of the command
		// included): both boards come from the same code and would share a history that is wrong from the start
		if want := gm.EverDrawn(); (b1.Result().Outcome == board.Draw) != want {
			res.Violate("C10", "history-differs", s.steps, "after %q (%s) and the continuation %s the board reports %v; by the game the command describes a draw event (third occurrence, clock, material) has held at some node: %v. The history used for repetition detection is not the one the command describes", pc.text, kind, movesUCI(gm.Moves[len(pc.game.Moves):]), b1.Result(), want)
			return false
		}
		if b1.Result().Outcome == board.Draw {
			res.Probe("probe-continuation-reached-draw")
		}
	}
	return true
}

func movesUCI(ms []rules.Move) string {
	var sb strings.Builder
	for i, m := range ms {
		if i > 0 {
			sb.WriteByte(' ')
		}
		sb.WriteString(m.UCI())
	}
	return sb.String()
}
