package sa

import (
	"fmt"
	"strings"
	"time"

	"github.com/herohde/morlock/pkg/engine"
	"verif/sim/core"
	"verif/sim/rules"
	"verif/sim/sb"
	"verif/sim/tape"
)

// obligation is one delivered 'go' and what became of it.
type obligation struct {
	idx       int
	text      string
	game      *rules.Game // game of the last position command at the time of the go
	infinite  bool
	needsStop bool // cannot end by itself: infinite, or no depth limit and no clock
	clockOnly bool // ends by a clock or movetime limit only (no depth limit): time passing must end it
	searchOrd int  // number of search tasks named when the go was sent: its own search has a higher ordinal
	stopStep  int  // step at which 'stop' was delivered (0 = not)
	goStep    int
	answered  bool
	closed    bool // a later position/go/ucinewgame/quit superseded it
	closeStep int
}

// uciGUI is M-uci: what a GUI may expect from the lines it sent.
type uciGUI struct {
	s        *uciSim
	game     *rules.Game // the game described by the last accepted position command
	lastPos  posCmd
	havePos  bool
	obs      []*obligation
	depthOpt uint // engine Depth option as last set
	seenLine int  // output lines already judged
	isready  int
	readyok  int
	prop     string
	dead     bool // a violation was recorded
}

func (g *uciGUI) open() *obligation {
	if n := len(g.obs); n > 0 && !g.obs[n-1].closed && !g.obs[n-1].answered {
		return g.obs[n-1]
	}
	return nil
}

// judge inspects new output lines.
func (g *uciGUI) judge() {
	s := g.s
	for g.seenLine < len(s.lines) && !g.dead {
		l := s.lines[g.seenLine]
		g.seenLine++
		g.judgeLine(l)
	}
}

func (g *uciGUI) judgeLine(l outLine) {
	s := g.s
	{
		switch {
		case l.text == "readyok":
			g.readyok++
			if g.readyok > g.isready {
				s.res.Violate(g.prop, "unsolicited-readyok", l.step, "readyok #%d but only %d isready delivered", g.readyok, g.isready)
				g.dead = true
			}
		case strings.HasPrefix(l.text, "bestmove"):
			s.res.Tracef("[%d] < %s", l.step, l.text)
			f := strings.Fields(l.text)
			mv := ""
			if len(f) >= 2 {
				mv = f[1]
			}
			var ob *obligation
			if n := len(g.obs); n > 0 {
				ob = g.obs[n-1]
			}
			if ob == nil || ob.answered || ob.closed {
				why := "no go is outstanding"
				if ob != nil && ob.answered {
					why = fmt.Sprintf("go #%d (%s) was already answered", ob.idx, ob.text)
				} else if ob != nil {
					why = fmt.Sprintf("go #%d (%s) was superseded", ob.idx, ob.text)
				}
				s.res.Violate(g.prop, "unsolicited-bestmove", l.step, "%q although %s", l.text, why)
				g.dead = true
				return
			}
			ob.answered = true
			if ob.infinite && ob.stopStep == 0 {
				// The UCI text forbids it, the property's sentence does not (a book move or a depth limit ends
				// the search by itself); "exactly one" still applies to a later stop. Counted, not judged.
				s.res.Probe("infinite-answered-before-stop")
			}
			cur := ob.game.Pos()
			legal := cur.LegalMoves()
			if mv == "0000" {
				if len(legal) > 0 {
					kind := "null-bestmove-with-legal-moves"
					if ob.game.EverDrawn() {
						kind = "null-bestmove-in-claimable-draw"
					}
					s.res.Violate(g.prop, kind, l.step, "go #%d (%s) on %q (%s) answered %q although %d legal moves exist", ob.idx, ob.text, ob.game.FEN(), g.s.b.W, l.text, len(legal))
					g.dead = true
				}
				return
			}
			m, ok := rules.ParseUCI(mv)
			if !ok || !cur.IsLegal(m) {
				s.res.Violate(g.prop, "illegal-bestmove", l.step, "go #%d (%s) on %q (%s) answered %q, which is not a legal move there", ob.idx, ob.text, ob.game.FEN(), g.s.b.W, l.text)
				g.dead = true
			}
		}
	}
}

type goSpec struct {
	text      string
	infinite  bool
	needsStop bool
	clockOnly bool
}

// drawGo draws a go variant; depth limits stay small so that a search ending by itself does so within the budget.
func (g *uciGUI) drawGo(t *tape.Tape, white bool) goSpec {
	maxDepth := 3
	if g.s.b.W == Turochamp || g.s.b.W == Sargon {
		maxDepth = 2
	}
	var parts []string
	sp := goSpec{}
	hasDepth, hasClock := false, false
	switch t.Weighted([]int{5, 3, 3, 3, 2}) {
	case 0:
		parts = append(parts, "depth", fmt.Sprint(t.Range(1, maxDepth)))
		hasDepth = true
	case 1:
		ms := []int{1, 10, 100, 1000, 30000}[t.Choose(5)]
		parts = append(parts, "movetime", fmt.Sprint(ms))
		hasClock = true
		g.s.deadlines = append(g.s.deadlines, g.s.now()+time.Duration(ms)*time.Millisecond)
	case 2:
		wt := []int{0, 1, 50, 2000, 60000, 600000}[t.Choose(6)]
		bt := []int{0, 1, 50, 2000, 60000, 600000}[t.Choose(6)]
		parts = append(parts, "wtime", fmt.Sprint(wt), "btime", fmt.Sprint(bt))
		mtg := 0
		if t.Chance(1, 2) {
			mtg = t.Range(1, 40)
			parts = append(parts, "movestogo", fmt.Sprint(mtg))
		}
		hasClock = true
		rem := wt
		if !white {
			rem = bt
		}
		// the instants at which a soft or hard limit may bite (used only to choose clock advances)
		n := 40
		if mtg > 0 {
			n = mtg + 1
		}
		soft := time.Duration(rem) * time.Millisecond / time.Duration(2*n)
		g.s.deadlines = append(g.s.deadlines, g.s.now()+soft, g.s.now()+3*soft, g.s.now()+time.Duration(rem)*time.Millisecond)
	case 3:
		parts = append(parts, "infinite")
		sp.infinite = true
		if t.Chance(1, 4) {
			parts = append(parts, "depth", fmt.Sprint(t.Range(1, maxDepth)))
			hasDepth = true
		}
	case 4:
		// bare go
	}
	if !hasDepth && g.depthOpt > 0 {
		hasDepth = true
	}
	sp.needsStop = sp.infinite || (!hasDepth && !hasClock)
	sp.clockOnly = hasClock && !hasDepth && !sp.infinite
	sp.text = strings.TrimSpace("go " + strings.Join(parts, " "))
	return sp
}

// nextPosition draws the next position command.
func (g *uciGUI) nextPosition(t *tape.Tape, lastBest string) posCmd {
	kinds := []int{4, 3, 4, 1, 1} // startpos line | fen line | extend previous | same again | shorten previous
	if !g.havePos {
		kinds[2], kinds[3], kinds[4] = 0, 0, 0
	}
	switch t.Weighted(kinds) {
	case 0:
		gm, _ := rules.NewGame(startFEN)
		if t.Chance(1, 10) {
			// an opening position reached with a tempo lost (pawn in two steps, a knight out and back): the
			// placement of a one-move opening with the other side to move
			f := "abcdefgh"[t.Choose(8)]
			kn := [][2]string{{"g8f6", "f6g8"}, {"b8c6", "c6b8"}}[t.Choose(2)]
			for _, u := range []string{fmt.Sprintf("%c2%c3", f, f), kn[0], fmt.Sprintf("%c3%c4", f, f), kn[1]} {
				if m, ok := rules.ParseUCI(u); ok {
					gm.Moves = append(gm.Moves, m)
				}
			}
			g.s.res.Probe("opening-placement-with-a-tempo-lost")
			return buildPosCmd(startFEN, gm)
		}
		n := t.Choose(12)
		if t.Chance(1, 4) {
			n = t.Choose(40)
		}
		randomLine(t, gm, n, t.Choose(10))
		return buildPosCmd(startFEN, gm)
	case 1:
		if t.Chance(1, 5) {
			// a scattered position with very few legal moves (the scarcest of a handful of draws): where
			// "forced move", "no plausible move" and "only one reply" short-cuts live
			best, bestN := "", 1000
			for i := 0; i < 12; i++ {
				f := sb.Scatter(t.Choose)
				p, _, _ := rules.MustFEN(f)
				if n := len(p.LegalMoves()); n >= 1 && n < bestN {
					best, bestN = f, n
				}
			}
			if best != "" {
				gm, _ := rules.NewGame(best)
				g.s.res.Probe("position-with-very-few-legal-moves")
				return buildPosCmd(best, gm)
			}
		}
		st := uciStarts[t.Choose(len(uciStarts))]
		gm, _ := rules.NewGame(st)
		randomLine(t, gm, t.Choose(10), t.Choose(10))
		return buildPosCmd(st, gm)
	case 2:
		gm := g.lastPos.game.Clone()
		if m, ok := rules.ParseUCI(lastBest); ok {
			cur := gm.Pos()
			if cur.IsLegal(m) {
				gm.Moves = append(gm.Moves, m) // play the engine's move, then a reply
			}
		}
		randomLine(t, gm, t.Range(1, 3), t.Choose(10))
		start := gm.Start.FEN(gm.StartHalf, gm.StartFull)
		return buildPosCmd(start, gm)
	case 3:
		return g.lastPos
	default:
		gm := g.lastPos.game.Clone()
		if n := len(gm.Moves); n > 0 {
			gm.Moves = gm.Moves[:n-1-t.Choose(min(n, 3))]
		}
		start := gm.Start.FEN(gm.StartHalf, gm.StartFull)
		return buildPosCmd(start, gm)
	}
}

// positions used by UCI sessions: a subset of the curated list plus claimable-draw set-ups
var uciStarts = []string{
	"r3k2r/p1ppqpb1/bn2pnp1/3PN3/1p2P3/2N2Q1p/PPPBBPPP/R3K2R w KQkq - 0 1",
	"8/2p5/3p4/KP5r/1R3p1k/8/4P1P1/8 w - - 0 1",
	"r3k2r/8/8/8/8/8/8/R3K2R b KQkq - 5 20",
	"rnbqkbnr/ppp1pppp/8/8/3pP3/8/PPPP1PPP/RNBQKBNR b KQkq e3 0 3",
	"4k3/P6P/8/8/8/8/p6p/4K3 w - - 0 1",
	"8/8/4k3/8/3p4/3KB3/8/2B5 w - - 0 1",
	"8/8/8/4k3/8/8/8/KQ6 w - - 0 1",
	"k7/8/1K6/8/8/8/8/7R w - - 0 1",
	"6k1/5ppp/8/8/8/8/8/R5K1 w - - 0 1",
	"7k/5Q2/5K2/8/8/8/8/8 w - - 0 1",
	"7k/5Q2/6K1/8/8/8/8/8 b - - 0 1",
	"7k/6Q1/6K1/8/8/8/8/8 b - - 0 1",
	"8/8/3nk3/8/8/3NK3/8/8 w - - 98 80",
	"r3k2r/8/8/8/8/8/8/R3K2R w KQkq - 99 100",
	"r1bq1rk1/ppp2ppp/2np1n2/2b1p3/2B1P3/2NP1N2/PPP2PPP/R1BQ1RK1 w - - 0 7",
	"2kr3r/ppp2ppp/2n1bn2/2b1p3/4P3/2NP1N2/PPP1BPPP/R1B2RK1 b - - 6 9",
}

func drawWiring(t *tape.Tape) (Wiring, engine.Options) {
	w := Wiring(t.Choose(int(NumWirings)))
	o := DefaultOptions(w)
	if t.Chance(1, 3) {
		o.Noise = []uint{0, 1, 2, 10, 500}[t.Choose(5)] // (1 and 2: the smallest ranges a generator can be asked for)
	}
	if w == Morlock && t.Chance(1, 4) {
		o.Hash = 0
	}
	if w != Morlock && t.Chance(1, 4) {
		o.Hash = 1
	}
	return w, o
}

// SessionC04: a polite GUI; every go must be answered by exactly one legal bestmove.
func SessionC04(t *tape.Tape) *core.RunResult {
	res := core.NewResult()
	k := NewKernel(t, res)
	defer k.Uninstall()
	k.PassThrough("tt.read", "tt.loaded", "tt.cas")
	// swarm: a random subset of the fine-grained points parks in this run
	for _, p := range []string{"iter.searched", "iter.sent", "halt.enter", "halt.closed", "fwd.pv", "loop.ponder", "loop.afterAnalyze", "complete.cas", "fwd.done"} {
		if t.Chance(2, 3) {
			k.PassThrough(p)
		}
	}
	w, opts := drawWiring(t)
	s := newUCISim(k, t, res, w, opts)
	g := &uciGUI{s: s, prop: "C04", depthOpt: opts.Depth}
	g.game, _ = rules.NewGame(startFEN)
	res.Tracef("engine=%s options=%+v", w, opts)
	nCmds := t.Range(3, core.Scale(22, 60))
	lastBest := ""
	sent := 0
	var pendingGo *goSpec

	// how eager this GUI is to send stop: an impatient one stops a search within a few steps, a patient one
	// lets simulated time pass first (so that timers of this and of EARLIER searches get their chance)
	patience := t.Choose(3)
	neverStop := t.Chance(1, 3)
	wClock := []int{3, 6, 12}[patience]
	gui := func() string {
		// while a go is unanswered the polite GUI only sends isready / stop
		if ob := g.open(); ob != nil {
			wStop := map[bool]int{true: 9, false: 3}[ob.needsStop]
			wStop = []int{wStop, wStop / 3, wStop / 9}[patience]
			if s.steps-ob.goStep > 150 {
				wStop = 9 // even a patient GUI stops eventually ...
			}
			if !ob.needsStop && neverStop {
				wStop = 0 // ... unless it trusts that a search with a limit ends by itself (the settle phase decides)
			}
			switch t.Weighted([]int{18, 6, wStop}) {
			case 1:
				g.isready++
				return "isready"
			case 2:
				if ob.stopStep == 0 {
					ob.stopStep = s.steps
					if !ob.needsStop {
						res.Probe("stop-sent-to-self-ending-search")
					}
					if k.GateN == 0 {
						res.Probe("stop-before-any-evaluation")
					}
				}
				res.Fault("halt@step")
				return "stop"
			}
			return ""
		}
		// after a position a go follows most of the time
		if pendingGo != nil {
			sp := *pendingGo
			pendingGo = nil
			sent++
			return g.sendGo(sp)
		}
		if sent >= nCmds {
			return ""
		}
		sent++
		switch t.Weighted([]int{6, 3, 1, 2, 1}) {
		case 0:
			pc := g.nextPosition(t, lastBest)
			if g.havePos && pc.text == g.lastPos.text {
				res.Probe("position-repeated-verbatim")
			}
			g.lastPos, g.havePos, g.game = pc, true, pc.game
			cur := pc.game.Pos()
			if len(cur.LegalMoves()) == 0 {
				res.Probe("go-on-terminal-root")
			}
			if pc.game.EverDrawn() {
				res.Probe("go-on-claimable-draw-root")
			}
			if t.Chance(5, 6) {
				sp := g.drawGo(t, cur.WhiteT)
				pendingGo = &sp
			}
			return pc.text
		case 1:
			cur := g.game.Pos()
			res.Probe("go-repeated-on-same-position")
			return g.sendGo(g.drawGo(t, cur.WhiteT))
		case 2:
			g.isready++
			return "isready"
		case 3:
			switch t.Choose(4) {
			case 0:
				v := []uint{0, 1}[t.Choose(2)]
				return fmt.Sprintf("setoption name Hash value %d", v)
			case 1:
				v := uint(t.Choose(3))
				g.depthOpt = v
				return fmt.Sprintf("setoption name Depth value %d", v)
			case 2:
				return fmt.Sprintf("setoption name Noise value %d", []int{0, 1, 3, 10, 300}[t.Choose(5)])
			default:
				return fmt.Sprintf("setoption name OwnBook value %v", t.Chance(1, 2))
			}
		default:
			return "ucinewgame"
		}
	}

	s.sync()
	for !g.dead && !s.outClosed && s.steps < s.maxSteps && !k.OverBudget() {
		if sent >= nCmds && g.open() == nil && pendingGo == nil {
			break
		}
		if ob := g.open(); ob != nil && ob.stopStep > 0 && s.steps-ob.stopStep > 300 {
			break // told to stop long ago and still no answer: let the settle phase decide
		}
		if ob := g.open(); ob != nil && !ob.needsStop && neverStop && ob.stopStep == 0 && s.steps-ob.goStep > 400 {
			break // a search with a limit that has not ended by itself in all that time: settle decides
		}
		s.stepRandom(gui, 6, wClock)
		g.judge()
		if ob, mt := g.open(), k.FindParked("mt"); ob != nil && !strings.Contains(ob.text, "movetime") && mt != nil && mt.Point == "timer.movetime" {
			res.Probe("timer-of-an-earlier-go-fired-into-this-one")
			if ob.needsStop {
				res.Probe("stale-timer-fired-into-stop-only-search")
			}
			if ob.infinite {
				res.Probe("stale-timer-fired-into-infinite-search")
			}
		}
		for i := len(s.lines) - 1; i >= 0; i-- {
			if strings.HasPrefix(s.lines[i].text, "bestmove ") {
				lastBest = strings.Fields(s.lines[i].text)[1]
				break
			}
		}
		if s.outClosed && !s.inClosed {
			res.Violate("C04", "driver-exited", s.steps, "the driver closed its output after %q although neither quit nor end of input was sent", s.lastCmd)
			g.dead = true
		}
	}
	finish := func() *core.RunResult {
		// nothing is judged from here on: the clean-up runs everything free (not replayable)
		// digest and hash are taken before the clean-up, which runs everything free and is not replayable
		res.Steps = s.steps
		res.TraceHash = k.InterleavingHash()
		ntrace := len(res.Trace)
		defer func() { res.Trace = res.Trace[:ntrace] }()
		hashBefore := k.InterleavingHash()
		s.teardown()
		res.NonTrivial = len(g.obs) >= 1 && k.evCount >= 10
		res.Digest = fmt.Sprintf("%016x/%d", hashBefore, g.seenLine)
		return res
	}
	if ob := g.open(); ob != nil && ob.clockOnly && ob.stopStep == 0 && !g.dead && !s.outClosed && k.OverBudget() && !k.Ambiguous && s.searchReportedSince(ob.searchOrd) {
		// The evaluation budget is gone while a go that only a clock can end is open, and its search has
		// reported an iteration (so a halt has nothing left to wait for). No more searching is needed to
		// decide it: let the clock pass every limit and the timer tasks run; the search notices at its next poll.
		if !s.clockSettle(func() bool { g.judge(); return ob.answered || g.dead || s.outClosed }, 80) && !g.dead {
			res.Violate("C04", "go-never-answered", s.steps, "go #%d (%s) on %q (%s): its search ran until the evaluation budget was spent; then every limit passed on the simulated clock, every timer task ran and the search was let on 80 more times, and still there is no bestmove: a go limited by the clock is answered without stop", ob.idx, ob.text, ob.game.FEN(), w)
			g.dead = true
			return finish()
		}
		res.Probe("clock-limited-go-settled-after-the-budget")
	}
	if s.steps >= s.maxSteps || k.OverBudget() {
		res.Inconclusive[map[bool]string{true: map[bool]string{true: "ambiguous-timers", false: "evaluation-budget"}[k.Ambiguous], false: "step-budget"}[k.OverBudget()]]++
		return finish()
	}
	// settle: the last go must be answered once it is told to stop / ends by itself
	if ob := g.open(); ob != nil && !g.dead && !s.outClosed {
		if ob.needsStop && ob.stopStep == 0 {
			if s.settle(func() bool { g.judge(); return s.canDeliver() || g.dead || ob.answered }, 400) && !ob.answered && !g.dead {
				ob.stopStep = s.steps
				s.deliver("stop")
			}
		}
		ok := s.settle(func() bool { g.judge(); return ob.answered || g.dead || s.outClosed }, 600)
		if !ok && s.budgetHit {
			if ob.clockOnly && ob.stopStep == 0 && s.afterDeadlineRounds >= 2 && !k.Ambiguous {
				// every instant at which its limit could bite has passed on the simulated clock, every timer task
				// has run (twice over), and the search still went on until the evaluation budget was gone
				res.Violate("C04", "go-never-answered", s.steps, "go #%d (%s) on %q (%s): its time limit has long passed on the simulated clock and every timer task has run, yet the search goes on (stopped looking when the evaluation budget was spent): a go limited by the clock is answered without stop", ob.idx, ob.text, ob.game.FEN(), w)
				g.dead = true
				return finish()
			}
			res.Inconclusive["evaluation-budget"]++
			return finish()
		}
		if !ok && !g.dead {
			res.Violate("C04", "go-never-answered", s.steps, "go #%d (%s) on %q (%s): no bestmove after stop=%v and a settle phase in which every task ran and hours of simulated time passed", ob.idx, ob.text, ob.game.FEN(), w, ob.stopStep > 0)
			g.dead = true
		}
	}
	for _, ob := range g.obs {
		if !ob.answered && !g.dead {
			res.Violate("C04", "go-never-answered", s.steps, "go #%d (%s) on %q (%s) was never answered", ob.idx, ob.text, ob.game.FEN(), w)
			g.dead = true
			break
		}
	}
	return finish()
}

func (g *uciGUI) sendGo(sp goSpec) string {
	if prev := g.open(); prev != nil {
		prev.closed = true
	}
	g.s.frugal = sp.needsStop
	ob := &obligation{idx: len(g.obs) + 1, text: sp.text, game: g.game.Clone(), infinite: sp.infinite, needsStop: sp.needsStop, clockOnly: sp.clockOnly, goStep: g.s.steps, searchOrd: g.s.k.RoleCount("search")}
	g.obs = append(g.obs, ob)
	if sp.infinite {
		g.s.res.Probe("go-infinite")
	}
	return sp.text
}
