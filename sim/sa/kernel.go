// Package sa is simulator S-A: the real UCI driver, engine facade, iterative launcher and
// search run inside one testing/synctest bubble; what is simulated is who runs, and when time passes.
package sa

import (
	"bytes"
	"context"
	"fmt"
	"runtime"
	"sort"
	"strconv"
	"strings"
	"sync"
	"testing/synctest"

	"github.com/herohde/morlock/pkg/board"
	"github.com/herohde/morlock/pkg/eval"
	"github.com/herohde/morlock/pkg/simhook"
	"verif/sim/core"
	"verif/sim/tape"
)

const GatePoint = "search.gate"
const IterPoint = "iter.sent"

// GateBudget caps the evaluations of one run (real CPU time); beyond it the run is inconclusive.
var GateBudget = 50000

// Task is a goroutine of the code under test, named by role and ordinal of first appearance.
type Task struct {
	Name     string
	Role     string
	Point    string // where it is parked ("" = running or blocked inside the code)
	wake     chan struct{}
	credit   int    // remaining gate passes before it parks again
	lockPass int    // remaining Engine.mu acquisitions it may make without parking (only while the lock is free)
	wantMu   string // parked at "mutex.lock": the mutex (address as text) it is about to take
	byDrain  bool   // woken by Drain
	gid      uint64
}

type Kernel struct {
	T   *tape.Tape
	Res *core.RunResult

	mu       sync.Mutex
	parked   []*Task
	tasks    map[uint64]*Task
	roleN    map[string]int
	pass     map[string]bool // points that do not park in this run
	draining bool
	ctl      uint64 // the controller goroutine never parks

	Step       int
	evHash     uint64
	evCount    int
	GateN      int  // gate passes (evaluations) so far
	lockHeld   bool // Engine.mu is held by a task of the code under test (engine.lock / engine.unlocked hooks)
	lockBy     string
	muHeld     map[string]string // simhook.Mutex instances (handle.mu) held right now -> holder
	muFree     map[string]chan struct{}
	engFree    chan struct{}  // teardown: closed when Engine.mu is released
	extra      int            // evaluations granted beyond GateBudget (ExtendBudget)
	drainCalls map[uint64]int // teardown: hook points passed per goroutine
	Ambiguous  bool
}

// alwaysPark: after these points the task would otherwise run on in parallel with a task it has just
// woken (search vs. the caller of Halt; timer callbacks vs. everything), which would make the
// execution depend on real timing.
var alwaysPark = map[string]bool{"fwd.done": true, "iter.sent": true, "halt.woken": true, "halt.unwound": true, "timer.movetime": true, "timer.hard": true, "timer.movetime.done": true, "loop.idle": true, "loop.recv": true}

func goid() uint64 {
	var buf [64]byte
	n := runtime.Stack(buf[:], false)
	// "goroutine 123 ["
	f := bytes.Fields(buf[:n])
	if len(f) < 2 {
		return 0
	}
	id, _ := strconv.ParseUint(string(f[1]), 10, 64)
	return id
}

// NewKernel installs the kernel as the simhook of /repo. Call from the bubble's root goroutine.
func NewKernel(t *tape.Tape, res *core.RunResult) *Kernel {
	GateBudget = core.Scale(50000, 200000)
	k := &Kernel{T: t, Res: res, tasks: map[uint64]*Task{}, roleN: map[string]int{}, pass: map[string]bool{}, muHeld: map[string]string{}, muFree: map[string]chan struct{}{}, drainCalls: map[uint64]int{}, ctl: goid(), evHash: 1469598103934665603}
	simhook.Set(k.Park)
	return k
}

// Close removes the hook and lets every parked task run on (teardown).
func (k *Kernel) Drain() {
	k.mu.Lock()
	k.draining = true
	ps := k.parked
	k.parked = nil
	k.mu.Unlock()
	for _, t := range ps {
		t.Point = ""
		t.byDrain = true
		close(t.wake)
	}
}

// Uninstall is left to the bubble (run.InBubble removes the hook once every goroutine of the bubble has
// ended or is blocked for good): tasks that still run during the teardown must keep meeting the kernel,
// which is what stops one that never ends.
func (k *Kernel) Uninstall() {}

func (k *Kernel) PassThrough(points ...string) {
	k.mu.Lock()
	for _, p := range points {
		k.pass[p] = true
	}
	k.mu.Unlock()
}

func roleOf(point string) string {
	switch {
	case strings.HasPrefix(point, "loop."):
		return "loop"
	case strings.HasPrefix(point, "fwd."):
		return "fwd"
	case point == "timer.movetime" || point == "timer.movetime.done":
		return "mt"
	case point == "timer.hard":
		return "hard"
	case strings.HasPrefix(point, "client"):
		return point[:strings.IndexByte(point, '.')] // clientA.x, clientB.x: one role per simulated client
	case strings.HasPrefix(point, "halt.") || strings.HasPrefix(point, "complete.") || strings.HasPrefix(point, "engine.") || strings.HasPrefix(point, "mutex."):
		return "anon" // says nothing about who the caller is; the role is settled at the first telling point
	}
	return "search" // search.gate, iter.*, tt.*
}

// Park is the hook: the calling goroutine stops here until the controller releases it.
func (k *Kernel) Park(point string) {
	gid := goid()
	if gid == k.ctl {
		return
	}
	// simhook.Mutex (handle.mu): "mutex.lock#addr" before Lock, "mutex.unlocked#addr" after Unlock
	muAddr := ""
	if i := strings.IndexByte(point, '#'); i > 0 && strings.HasPrefix(point, "mutex.") {
		point, muAddr = point[:i], point[i+1:]
	}
	k.mu.Lock()
	if point == "mutex.unlocked" {
		delete(k.muHeld, muAddr)
		if ch := k.muFree[muAddr]; ch != nil {
			close(ch)
			delete(k.muFree, muAddr)
		}
		k.mu.Unlock()
		return
	}
	if point == "engine.unlocked" {
		k.lockHeld, k.lockBy = false, ""
		if k.engFree != nil {
			close(k.engFree)
			k.engFree = nil
		}
		k.mu.Unlock()
		return
	}
	if k.draining {
		// a task that passes hook points for ever after everything was halted and cancelled would keep the
		// bubble (and the worker) from ending: stop it and tell the session
		k.drainCalls[gid]++
		if k.drainCalls[gid] > 200000 {
			if k.Res != nil && k.Res.Runaway == "" {
				k.Res.Runaway = point
			}
			k.mu.Unlock()
			select {}
		}
		// teardown: everything runs free, but still nobody may wait inside sync.Mutex.Lock (the bubble could
		// not end: such a wait is not "durably blocked"); wait on a channel until the mutex is free
		for point == "mutex.lock" {
			if _, held := k.muHeld[muAddr]; !held {
				k.muHeld[muAddr] = "(teardown)"
				break
			}
			ch := k.muFree[muAddr]
			if ch == nil {
				ch = make(chan struct{})
				k.muFree[muAddr] = ch
			}
			k.mu.Unlock()
			<-ch
			k.mu.Lock()
		}
		for point == "engine.lock" {
			if !k.lockHeld {
				k.lockHeld, k.lockBy = true, "(teardown)"
				break
			}
			if k.engFree == nil {
				k.engFree = make(chan struct{})
			}
			ch := k.engFree
			k.mu.Unlock()
			<-ch
			k.mu.Lock()
		}
		k.mu.Unlock()
		return
	}
	tk := k.tasks[gid]
	if tk == nil {
		// named lazily by the controller (nameNew): two tasks of one role that first park in the same
		// step (two timers fired by one clock advance) are ordered by goroutine creation, not by arrival
		tk = &Task{Role: roleOf(point), gid: gid}
		k.tasks[gid] = tk
	} else if tk.Role == "anon" {
		if r := roleOf(point); r != "anon" {
			tk.Role, tk.Name = r, "" // renamed by the controller at its next look
		}
	}
	// The gate consumes credit. Every other point parks unless it is pass-through in this run;
	// the points in alwaysPark are never pass-through (determinism: see DESIGN.md 2.1).
	if point == GatePoint {
		k.GateN++
		if k.GateN > GateBudget+k.extra {
			tk.credit = 0 // over budget: hand control back; the session ends as inconclusive
		}
		if tk.credit > 0 {
			tk.credit--
			k.mu.Unlock()
			return
		}
	} else if point == "engine.lock" {
		// A task never blocks on Engine.mu itself (synctest cannot see through a mutex): it parks here
		// and is let go only while the lock is free; with lock passes it goes straight on.
		if tk.lockPass > 0 && !k.lockHeld {
			tk.lockPass--
			k.lockHeld, k.lockBy = true, tk.Name
			k.mu.Unlock()
			return
		}
	} else if point == "mutex.lock" {
		// free: straight on (these sections are a few statements long and never park, so that within one
		// step the mutex is always free again); held by a task that blocked inside its section: park,
		// and become runnable only when it is free again (never wait inside sync.Mutex.Lock)
		if _, held := k.muHeld[muAddr]; !held {
			k.muHeld[muAddr] = tk.Name
			k.mu.Unlock()
			return
		}
		tk.wantMu = muAddr
	} else if k.pass[point] && !alwaysPark[point] {
		k.mu.Unlock()
		return
	}
	if point == IterPoint {
		k.GateN += 20 // an iteration counts towards the work budget (a search that never evaluates must not spin for ever)
	}
	tk.Point = point
	tk.wake = make(chan struct{})
	ch := tk.wake
	k.parked = append(k.parked, tk)
	k.mu.Unlock()
	<-ch
	if point == "mutex.lock" || point == "engine.lock" {
		k.mu.Lock()
		woken := tk.byDrain
		k.mu.Unlock()
		if woken {
			// woken by the teardown, not by a release (which books the mutex for the task)
			if point == "mutex.lock" {
				point += "#" + muAddr
			}
			k.Park(point)
		}
	}
}

// Wait lets everything run until every goroutine of the bubble is parked or durably blocked.
func (k *Kernel) Wait() {
	synctest.Wait()
	core.Beat() // the watchdog measures steps without progress, not the length of a run
}

// Parked returns the parked tasks in a deterministic order (by role, ordinal).
func (k *Kernel) Parked() []*Task {
	k.mu.Lock()
	ps := append([]*Task(nil), k.parked...)
	var fresh []*Task
	for _, t := range ps {
		if t.Name == "" {
			fresh = append(fresh, t)
		}
	}
	sort.Slice(fresh, func(i, j int) bool { return fresh[i].gid < fresh[j].gid })
	for i := 1; i < len(fresh); i++ {
		if fresh[i].Role == fresh[i-1].Role {
			// two timers with the very same deadline: their goroutines start concurrently and cannot be
			// told apart in a replayable way. The run stops being judged (counted as inconclusive).
			k.Ambiguous = true
		}
	}
	for _, t := range fresh {
		k.roleN[t.Role]++
		t.Name = fmt.Sprintf("%s#%d", t.Role, k.roleN[t.Role])
	}
	k.mu.Unlock()
	sort.Slice(ps, func(i, j int) bool {
		if ps[i].Role != ps[j].Role {
			return ps[i].Role < ps[j].Role
		}
		if len(ps[i].Name) != len(ps[j].Name) {
			return len(ps[i].Name) < len(ps[j].Name)
		}
		return ps[i].Name < ps[j].Name
	})
	return ps
}

// ExtendBudget grants n more evaluations (used by a settle phase that must give a search the time to
// notice a halt, after the run's own budget is gone).
func (k *Kernel) ExtendBudget(n int) {
	k.mu.Lock()
	k.extra += n
	k.mu.Unlock()
}

// RoleCount: how many tasks of the role have been named so far (the ordinal of the newest).
func (k *Kernel) RoleCount(role string) int {
	k.mu.Lock()
	defer k.mu.Unlock()
	return k.roleN[role]
}

// RunnableParked: the parked tasks that may be released now, in the order of Parked().
func (k *Kernel) RunnableParked() []*Task {
	var out []*Task
	for _, t := range k.Parked() {
		if k.Runnable(t) {
			out = append(out, t)
		}
	}
	return out
}

func (k *Kernel) FindParked(role string) *Task {
	for _, t := range k.Parked() {
		if t.Role == role {
			return t
		}
	}
	return nil
}

// Release lets a parked task run on; credit is the number of further gate passes it may make without parking.
func (k *Kernel) Release(t *Task, credit int) { k.ReleaseWith(t, credit, 1<<30) }

// Runnable: a parked task that may be released now (one parked in front of a mutex only while it is free).
func (k *Kernel) Runnable(t *Task) bool {
	k.mu.Lock()
	defer k.mu.Unlock()
	switch t.Point {
	case "engine.lock":
		return !k.lockHeld
	case "mutex.lock":
		_, held := k.muHeld[t.wantMu]
		return !held
	}
	return true
}

// LockHeld: Engine.mu is held by some task; a task parked at engine.lock must not be released now.
func (k *Kernel) LockHeld() bool {
	k.mu.Lock()
	defer k.mu.Unlock()
	return k.lockHeld
}

// ReleaseWith also sets how many further Engine.mu acquisitions the task may make without parking.
func (k *Kernel) ReleaseWith(t *Task, credit, lockPass int) {
	k.mu.Lock()
	idx := -1
	for i, p := range k.parked {
		if p == t {
			idx = i
		}
	}
	if idx < 0 {
		k.mu.Unlock()
		panic("sim: release of a task that is not parked: " + t.Name)
	}
	k.parked = append(k.parked[:idx], k.parked[idx+1:]...)
	point := t.Point
	t.Point = ""
	t.credit = credit
	t.lockPass = lockPass
	if point == "engine.lock" {
		if k.lockHeld {
			k.mu.Unlock()
			panic("sim: released a task into Engine.mu while it is held by " + k.lockBy)
		}
		k.lockHeld, k.lockBy = true, t.Name
	}
	if point == "mutex.lock" {
		if by, held := k.muHeld[t.wantMu]; held {
			k.mu.Unlock()
			panic("sim: released a task into a mutex held by " + by)
		}
		k.muHeld[t.wantMu] = t.Name
	}
	ch := t.wake
	k.mu.Unlock()
	k.Event(t.Name + "@" + point)
	close(ch)
}

// Event folds a (task, point) / stimulus into the interleaving hash.
func (k *Kernel) Event(s string) {
	for i := 0; i < len(s); i++ {
		k.evHash = (k.evHash ^ uint64(s[i])) * 1099511628211
	}
	k.evHash = (k.evHash ^ 0xff) * 1099511628211
	k.evCount++
}

// OverBudget: the run must end without a verdict (work budget exhausted, or tasks that cannot be named replayably).
func (k *Kernel) OverBudget() bool {
	k.mu.Lock()
	defer k.mu.Unlock()
	return k.GateN > GateBudget+k.extra || k.Ambiguous
}

func (k *Kernel) Work() int {
	k.mu.Lock()
	defer k.mu.Unlock()
	return k.GateN
}

func (k *Kernel) InterleavingHash() uint64 { return k.evHash }

// Gate wraps a leaf evaluator: every evaluation is a park point of the search goroutine.
type Gate struct {
	K     *Kernel
	Inner eval.Evaluator
}

func (g Gate) Evaluate(ctx context.Context, b *board.Board) eval.Pawns {
	g.K.Park(GatePoint)
	return g.Inner.Evaluate(ctx, b)
}
