package sa

import (
	"fmt"
	"strings"

	"verif/sim/core"
	"verif/sim/rules"
	"verif/sim/tape"
)

// advGUI is the impolite GUI of C16: anything may arrive while a search is running.
type advGUI struct {
	s    *uciSim
	t    *tape.Tape
	res  *core.RunResult
	base *rules.Game // a long legal line; positions set up are prefixes of it, one ply apart
	at   int         // current prefix length

	// driver-side view, updated when the loop takes a line (released from loop.recv)
	game       *rules.Game // game of the last position command the driver processed
	cur        *obligation // open obligation (a go the driver processed and has not answered)
	all        []*obligation
	nGo        int
	pending    string // line delivered, not yet taken by the loop
	isready    int
	readyok    int
	seen       int
	dead       bool
	mayExit    bool // an ill-formed line was delivered: the driver is allowed to exit
	needSync   bool // after an ill-formed position the GUI must set up a position afresh before the next go
	quitSent   bool
	lastPosTx  string
	superseded int
}

// onTaken is called when the loop is released from loop.recv with the pending line: its effect starts now.
func (g *advGUI) onTaken() {
	line := g.pending
	g.pending = ""
	f := strings.Fields(line)
	if len(f) == 0 {
		return
	}
	switch f[0] {
	case "position":
		if g.cur != nil {
			g.cur.closed, g.cur.closeStep = true, g.s.steps
			g.cur = nil
			g.superseded++
		}
		if gm, ok := parsePositionModel(line); ok {
			g.game = gm
			g.needSync = false
		} else {
			g.needSync = true
		}
	case "ucinewgame":
		if g.cur != nil {
			g.cur.closed, g.cur.closeStep = true, g.s.steps
			g.cur = nil
			g.superseded++
		}
	case "go":
		if g.cur != nil {
			g.cur.closed, g.cur.closeStep = true, g.s.steps
			g.superseded++
		}
		g.nGo++
		g.cur = &obligation{idx: g.nGo, text: line, game: g.game.Clone(), goStep: g.s.steps}
		g.all = append(g.all, g.cur)
	case "quit", "<EOF>":
		// not a supersession: the current go may still be answered while the driver shuts down
	}
}

// parsePositionModel builds the game a well-formed position command describes (nil,false if it is not one).
func parsePositionModel(line string) (*rules.Game, bool) {
	f := strings.Fields(line)
	if len(f) < 2 || f[0] != "position" {
		return nil, false
	}
	var g *rules.Game
	i := 2
	switch f[1] {
	case "startpos":
		g, _ = rules.NewGame(startFEN)
	case "fen":
		if len(f) < 8 {
			return nil, false
		}
		var err error
		g, err = rules.NewGame(strings.Join(f[2:8], " "))
		if err != nil {
			return nil, false
		}
		i = 8
	default:
		return nil, false
	}
	if i < len(f) {
		if f[i] != "moves" {
			return nil, false
		}
		for _, mt := range f[i+1:] {
			m, ok := rules.ParseUCI(mt)
			if !ok {
				return nil, false
			}
			cur := g.Pos()
			if !cur.IsLegal(m) {
				return nil, false
			}
			g.Moves = append(g.Moves, m)
		}
	}
	return g, true
}

func (g *advGUI) judge() {
	s := g.s
	for g.seen < len(s.lines) && !g.dead {
		l := s.lines[g.seen]
		g.seen++
		switch {
		case l.text == "readyok":
			g.readyok++
			if g.readyok > g.isready {
				g.res.Violate("C16", "unsolicited-readyok", l.step, "readyok #%d but only %d isready delivered", g.readyok, g.isready)
				g.dead = true
			}
		case strings.HasPrefix(l.text, "bestmove"):
			g.res.Tracef("[%d] < %s", l.step, l.text)
			// The line was written at some step in [l.from, l.step] (a stalled consumer reads late): it may
			// answer any go that was open, and unanswered, at some step of that window.
			f := strings.Fields(l.text)
			mv := ""
			if len(f) >= 2 {
				mv = f[1]
			}
			var cands []*obligation
			for _, o := range g.all {
				if o.answered {
					continue
				}
				end := l.step
				if o.closed {
					end = o.closeStep - 1
				}
				if max(o.goStep, l.from) <= min(end, l.step) {
					cands = append(cands, o)
				}
			}
			if len(cands) == 0 {
				g.res.Violate("C16", "stale-or-duplicate-bestmove", l.step, "%q although no go was outstanding when it was written (steps %d..%d): the last one was superseded or already answered", l.text, l.from, l.step)
				g.dead = true
				return
			}
			var ob *obligation
			for _, o := range cands {
				p := o.game.Pos()
				if mv == "0000" {
					if len(p.LegalMoves()) == 0 {
						ob = o
						break
					}
					continue
				}
				if m, ok := rules.ParseUCI(mv); ok && p.IsLegal(m) {
					ob = o
					break
				}
			}
			if ob == nil {
				o := cands[len(cands)-1]
				kind := "bestmove-not-for-current-position"
				if mv == "0000" {
					kind = "null-bestmove-with-legal-moves"
				}
				g.res.Violate("C16", kind, l.step, "go #%d (%s) on %q answered %q, not a legal move there nor for any other go that was open when it was written (it belongs to an earlier position: a stale answer)", o.idx, o.text, o.game.FEN(), l.text)
				g.dead = true
				return
			}
			ob.answered = true
			if g.cur == ob {
				g.cur = nil
			}
		}
	}
}

func (g *advGUI) positionText(n int) string {
	gm := &rules.Game{Start: g.base.Start, StartHalf: g.base.StartHalf, StartFull: g.base.StartFull, Moves: g.base.Moves[:n]}
	return buildPosCmd(g.base.Start.FEN(g.base.StartHalf, g.base.StartFull), gm).text
}

func tear(t *tape.Tape, line string) string {
	if len(line) < 2 {
		return line
	}
	return line[:1+t.Choose(len(line)-1)]
}

var garbage = []string{"setoption name Hash value -5", "setoption name Depth value 4000000000", "setoption name Depth value -7", "setoption name Noise value -1", "setoption name Depth value -1", "setoption name Noise value abc", "setoption name Hash value x", "setoption name Noise", "setoption name Noise value 99999999999999999999", "", " ", "xyzzy", "go go go", "position", "position fen", "position fen 8/8 w", "setoption", "setoption name", "bestmove e2e4", "uci", "debug on", "register later", "ponderhit", "go depth", "go movetime x", "position startpos moves e2e5", "position startpos moves", "\t", "isready now", "stop stop"}

// next returns the next line of the impolite GUI ("" = none).
func (g *advGUI) next() string {
	t := g.t
	if g.needSync {
		// after an ill-formed position command: set the position up afresh
		return g.positionText(g.at)
	}
	switch t.Weighted([]int{6, 6, 3, 3, 2, 1, 2, 2, 1}) {
	case 0: // position one ply further / back (the side to move alternates, so answers are attributable by content)
		switch {
		case len(g.base.Moves) == 0:
		case g.at >= len(g.base.Moves) || (g.at > 0 && t.Chance(1, 4)):
			g.at--
		default:
			g.at++
		}
		return g.positionText(g.at)
	case 1:
		maxDepth := 3
		if g.s.b.W == Turochamp || g.s.b.W == Sargon {
			maxDepth = 2
		}
		switch t.Choose(5) {
		case 0:
			return fmt.Sprintf("go depth %d", t.Range(1, maxDepth))
		case 1:
			ms := []int{1, 20, 1000, 60000}[t.Choose(4)]
			g.s.deadlines = append(g.s.deadlines, g.s.now()+durMs(ms))
			return fmt.Sprintf("go movetime %d", ms)
		case 2:
			return fmt.Sprintf("go wtime %d btime %d", []int{0, 100, 60000}[t.Choose(3)], []int{0, 100, 60000}[t.Choose(3)])
		case 3:
			return "go infinite"
		default:
			return "go"
		}
	case 2:
		g.res.Fault("halt@step")
		return "stop"
	case 3:
		return "isready"
	case 4:
		return "ucinewgame"
	case 5:
		return []string{"setoption name Hash value 0", "setoption name Hash value 1", "setoption name Depth value 1", "setoption name Depth value 0", "setoption name Noise value 50", "setoption name OwnBook value false", "setoption name OwnBook value true", "setoption name Noise value 1", "setoption name Noise value 2", "setoption name Noise value 0"}[t.Choose(10)]
	case 6: // garbage or torn line
		g.res.Fault("garbage-line")
		g.mayExit = true
		if t.Chance(1, 2) {
			g.res.Fault("torn-line")
			src := []string{g.positionText(g.at), "isready", "stop", "ucinewgame", "setoption name Hash value 1"}[t.Choose(5)]
			l := tear(t, src)
			if strings.HasPrefix(l, "pos") {
				g.needSync = true
			}
			return l
		}
		l := garbage[t.Choose(len(garbage))]
		if strings.HasPrefix(l, "position") {
			g.needSync = true
		}
		return l
	case 7: // duplicate of the previous line
		if g.s.lastCmd != "" && !strings.HasPrefix(g.s.lastCmd, "go movetime") {
			g.res.Fault("dup-line")
			return g.s.lastCmd
		}
		return ""
	default:
		return ""
	}
}

// SessionC16: adversarial UCI sessions; crash, deadlock, readyok, stale answers, clean shutdown.
func SessionC16(t *tape.Tape) *core.RunResult {
	res := core.NewResult()
	k := NewKernel(t, res)
	defer k.Uninstall()
	k.PassThrough("tt.read", "tt.loaded", "tt.cas")
	for _, p := range []string{"iter.searched", "halt.enter", "halt.closed", "fwd.pv", "loop.ponder", "loop.afterAnalyze", "complete.cas", "fwd.done", "loop.exit"} {
		if t.Chance(1, 2) {
			k.PassThrough(p)
		}
	}
	w, opts := drawWiring(t)
	s := newUCISim(k, t, res, w, opts)
	s.frugal = true
	res.Tracef("engine=%s options=%+v", w, opts)
	g := &advGUI{s: s, t: t, res: res}
	// the base line
	st := startFEN
	if t.Chance(1, 3) {
		st = uciStarts[t.Choose(len(uciStarts))]
	}
	g.base, _ = rules.NewGame(st)
	randomLine(t, g.base, t.Range(6, 30), t.Choose(4))
	g.game, _ = rules.NewGame(startFEN)
	nCmds := t.Range(4, core.Scale(40, 120))
	endWith := t.Choose(3) // 0 EOF, 1 quit, 2 EOF/quit mid-search as soon as a search is live
	sent := 0

	takeHook := func(tk *Task) {
		if tk.Point == "loop.recv" && g.pending != "" {
			g.onTaken()
		}
	}
	s.onRelease = takeHook

	gui := func() string {
		if g.pending != "" {
			return ""
		}
		if sent >= nCmds {
			return ""
		}
		if endWith == 2 && g.cur != nil && !g.cur.answered && t.Chance(1, 6) {
			sent = nCmds
			g.quitSent = true
			res.Fault(map[bool]string{true: "quit", false: "eof"}[t.Chance(1, 2)] + "-mid-search")
			if k.FindParked("fwd") != nil {
				res.Probe("exit-with-forwarder-parked")
			}
			if t.Chance(1, 2) {
				g.pending = "quit"
				return "quit"
			}
			g.pending = "<EOF>"
			return "<EOF>"
		}
		l := g.next()
		if l == "" {
			return ""
		}
		sent++
		if g.cur != nil && !g.cur.answered && (strings.HasPrefix(l, "position") || strings.HasPrefix(l, "go") || l == "ucinewgame") {
			res.Fault("supersede")
			if k.FindParked("fwd") != nil {
				res.Probe("supersede-with-forwarder-parked")
			}
		}
		if f := strings.Fields(l); len(f) > 0 && strings.ToLower(f[0]) == "isready" {
			g.isready++ // whatever follows the first token, the driver answers it
		}
		g.pending = l
		return l
	}

	s.sync()
	idle := 0
	for !g.dead && !s.outClosed && s.steps < s.maxSteps && !k.OverBudget() {
		if sent >= nCmds && g.pending == "" && len(k.Parked()) == 0 {
			break
		}
		// progress = lines in or out, or a task released; the clock moving is not progress by itself
		progress := func() int { return len(s.delivered) + len(s.lines) + k.evCount - s.clockEvents }
		before := progress()
		s.stepRandom(gui, 8, 3)
		g.judge()
		// (2) deadlock: input is waiting, nothing is parked, nothing can run, and time does not help
		if progress() == before {
			idle++
		} else {
			idle = 0
		}
		if idle > 40 && s.stall == 0 && len(k.RunnableParked()) == 0 && !s.canDeliver() && s.loop != lsExited {
			for i := 0; i < 3; i++ {
				s.advance(3600e9)
				s.sync()
			}
			g.judge()
			if len(k.RunnableParked()) == 0 && !s.canDeliver() && !s.outClosed {
				res.Violate("C16", "deadlock", s.steps, "after %q: the command loop neither waits for input nor runs, nothing that is parked can run (%s), no timer fires within three simulated hours, and the output consumer is reading", s.lastCmd, describeParked(k.Parked()))
				g.dead = true
			}
			idle = 0
		}
		if !g.dead && s.blockedWork() > 25000 {
			res.Violate("C16", "deadlock", s.steps, "after %q the command loop has been stuck while searches spent %d evaluations: it waits for something that is not coming", s.lastCmd, s.blockedWork())
			g.dead = true
		}
		if s.outClosed && !s.inClosed && !g.quitSent && !g.mayExit {
			res.Violate("C16", "driver-exited", s.steps, "the driver closed its output after %q although neither quit nor end of input nor an ill-formed line was sent", s.lastCmd)
			g.dead = true
		}
	}
	finish := func() *core.RunResult {
		// digest and hash are taken before the clean-up, which runs everything free and is not replayable
		res.Steps = s.steps
		res.TraceHash = k.InterleavingHash()
		ntrace := len(res.Trace)
		defer func() { res.Trace = res.Trace[:ntrace] }()
		hashBefore := k.InterleavingHash()
		s.teardown()
		res.NonTrivial = g.nGo >= 1 && k.evCount >= 10
		res.Digest = fmt.Sprintf("%016x/%d", hashBefore, g.seen)
		if g.superseded > 0 {
			res.Probes["go-superseded"] += g.superseded
		}
		return res
	}
	if s.steps >= s.maxSteps || k.OverBudget() {
		res.Inconclusive[map[bool]string{true: map[bool]string{true: "ambiguous-timers", false: "evaluation-budget"}[k.Ambiguous], false: "step-budget"}[k.OverBudget()]]++
		return finish()
	}
	if g.dead {
		return finish()
	}
	// (3) every isready answered once everything has settled; (5) clean shutdown after quit / EOF
	if !s.outClosed {
		ok := s.settle(func() bool {
			g.judge()
			return g.dead || s.outClosed || (g.readyok >= g.isready && s.canDeliver() && g.pending == "")
		}, 500)
		if s.budgetHit {
			res.Inconclusive["evaluation-budget"]++
			return finish()
		}
		if !ok && !g.dead && !s.outClosed {
			if g.readyok < g.isready && !g.mayExit {
				res.Violate("C16", "isready-unanswered", s.steps, "%d isready delivered, %d readyok after a settle phase in which every task ran", g.isready, g.readyok)
			} else if g.pending != "" || !s.canDeliver() {
				res.Violate("C16", "deadlock", s.steps, "after %q the command loop does not come back to its input after a settle phase in which every task ran and hours passed", s.lastCmd)
			}
			return finish()
		}
	}
	if !g.dead && !s.outClosed {
		if g.readyok != g.isready && !g.mayExit {
			res.Violate("C16", "isready-unanswered", s.steps, "%d isready delivered, %d readyok", g.isready, g.readyok)
			return finish()
		}
		// end of input or quit
		if endWith == 1 && s.canDeliver() {
			g.pending = "quit"
			s.deliver("quit")
		} else {
			g.pending = "<EOF>"
			s.closeInput()
		}
		g.quitSent = true
	}
	stuck2 := false
	ok := s.settle(func() bool {
		g.judge()
		stuck2 = stuck2 || s.blockedWork() > 25000
		return stuck2 || g.dead || s.outClosed
	}, 500)
	if stuck2 && !g.dead {
		res.Violate("C16", "no-clean-shutdown", s.steps, "after quit/end of input the driver is stuck while searches spent %d evaluations: it waits for a search nobody halts", s.blockedWork())
		return finish()
	}
	if s.budgetHit {
		res.Inconclusive["evaluation-budget"]++
		return finish()
	}
	if !ok && !g.dead {
		res.Violate("C16", "no-clean-shutdown", s.steps, "after quit/end of input the output channel is still open after a settle phase in which every task ran and hours passed")
		return finish()
	}
	if !g.dead {
		s.k.Wait()
		if !s.drv.IsClosed() {
			res.Violate("C16", "no-clean-shutdown", s.steps, "output closed but Driver.Closed() did not fire")
		}
	}
	return finish()
}

func describeParked(ps []*Task) string {
	if len(ps) == 0 {
		return "nothing is parked"
	}
	var sb strings.Builder
	for i, t := range ps {
		if i > 0 {
			sb.WriteString(", ")
		}
		sb.WriteString(t.Name + " waits in front of a mutex at " + t.Point)
	}
	return sb.String()
}
