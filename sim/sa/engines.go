package sa

import (
	"context"
	"sort"

	"github.com/herohde/morlock/cmd/bernstein/bernstein"
	"github.com/herohde/morlock/cmd/sargon/sargon"
	"github.com/herohde/morlock/cmd/turochamp/turochamp"
	"github.com/herohde/morlock/pkg/board"
	"github.com/herohde/morlock/pkg/engine"
	"github.com/herohde/morlock/pkg/engine/uci"
	"github.com/herohde/morlock/pkg/eval"
	"github.com/herohde/morlock/pkg/search"
)

// Wiring repeats the engine construction of cmd/*/main.go (package main cannot be imported);
// the only difference is that the leaf evaluator sits behind the gate.
type Wiring int

const (
	Morlock Wiring = iota
	Turochamp
	Sargon
	Bernstein
	NumWirings
)

func (w Wiring) String() string {
	return [...]string{"morlock", "turochamp", "sargon", "bernstein"}[w]
}

// sortedBook makes Book.Find independent of Go's map iteration order (engine.NewBook builds its
// move lists by ranging over a map).
type sortedBook struct{ inner engine.Book }

func (s sortedBook) Find(ctx context.Context, fen string) ([]board.Move, error) {
	ms, err := s.inner.Find(ctx, fen)
	out := append([]board.Move(nil), ms...)
	sort.Slice(out, func(i, j int) bool {
		if out[i].From != out[j].From {
			return out[i].From < out[j].From
		}
		if out[i].To != out[j].To {
			return out[i].To < out[j].To
		}
		return out[i].Promotion < out[j].Promotion
	})
	return out, err
}

// Built is one engine with its real search stack.
type Built struct {
	W      Wiring
	E      *engine.Engine
	Root   search.Search
	Book   engine.Book // nil if the wiring has none
	UCIOpt []uci.Option
}

// Build constructs the engine; opts override the wiring's defaults where non-nil.
func Build(ctx context.Context, k *Kernel, w Wiring, opts engine.Options, ztSeed, bookSeed int64) *Built {
	gate := func(e eval.Evaluator) eval.Evaluator { return Gate{K: k, Inner: e} }
	b := &Built{W: w}
	eopts := []engine.Option{engine.WithOptions(opts), engine.WithZobrist(ztSeed)}
	var name, author string
	switch w {
	case Morlock:
		b.Root = search.AlphaBeta{Eval: search.Leaf{Eval: gate(eval.Material{})}}
		eopts = append(eopts, engine.WithTable(search.NewMinDepthTranspositionTable(1)))
		name, author = "morlock", "herohde"
	case Turochamp:
		b.Root = search.AlphaBeta{
			Eval: search.Quiescence{
				Explore: turochamp.ConsiderableMovesOnly,
				Eval:    search.Leaf{Eval: gate(turochamp.Eval{})},
			},
		}
		name, author = "TUROCHAMP (1948)", "Alan Turing and David Champernowne"
	case Sargon:
		points := &sargon.Points{}
		b.Root = sargon.Hook{
			Eval: search.AlphaBeta{
				Explore: sargon.SkipUnderPromotions,
				Eval:    sargon.OnePlyIfChecked{Leaf: search.Leaf{Eval: gate(points)}},
			},
			Hook: points,
		}
		b.Book = sortedBook{sargon.NewBook()}
		name, author = "SARGON (1978)", "Dan and Kathe Spracklen"
	case Bernstein:
		b.Root = search.AlphaBeta{
			Explore: bernstein.PlausibleMoveTable{Limit: 7}.Explore,
			Eval:    search.Leaf{Eval: gate(bernstein.Eval{Factor: 20})},
		}
		b.Book = sortedBook{bernstein.NewBook()}
		name, author = "BERNSTEIN (1957)", "Alex Bernstein, Michael de V. Roberts, Timothy Arbuckle and Martin Belsky"
	}
	b.E = engine.New(ctx, name, author, b.Root, eopts...)
	if b.Book != nil {
		b.UCIOpt = append(b.UCIOpt, uci.UseBook(b.Book, bookSeed))
	}
	return b
}

// DefaultOptions are the wiring's engine options as in main.go (flag defaults), except that
// morlock's 64 MB table default is replaced by 1 MB (allocation cost per Reset).
func DefaultOptions(w Wiring) engine.Options {
	switch w {
	case Morlock:
		return engine.Options{Hash: 1}
	case Turochamp:
		return engine.Options{Depth: 2, Noise: 10}
	case Sargon:
		return engine.Options{Depth: 1, Noise: 10}
	case Bernstein:
		return engine.Options{Depth: 4, Noise: 0}
	}
	return engine.Options{}
}
