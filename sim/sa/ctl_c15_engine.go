package sa

import (
	"context"
	"fmt"
	"strings"

	"github.com/herohde/morlock/pkg/engine"
	"github.com/herohde/morlock/pkg/search"
	"github.com/herohde/morlock/pkg/search/searchctl"
	"github.com/seekerror/stdlib/pkg/lang"
	"verif/sim/core"
	"verif/sim/rules"
	"verif/sim/tape"
)

// sessionC15Engine: the same statement observed through Engine.Analyze / Engine.Halt with the real
// wirings (quiescence and check-extension leaves can see mates beyond the nominal depth; the engine's
// default depth and the request's depth limit combine).
func sessionC15Engine(t *tape.Tape, res *core.RunResult, k *Kernel) *core.RunResult {
	ctx, cancel := context.WithCancel(context.Background())
	w := Wiring(t.Choose(int(NumWirings)))
	maxD := 3
	if w == Turochamp || w == Sargon {
		maxD = 2
	}
	d0 := uint(t.Choose(maxD + 1)) // the engine's default depth option (0 = none)
	b := Build(ctx, k, w, engine.Options{Depth: d0, Hash: 0, Noise: 0}, int64(t.Choose(1<<16)), 1)
	st := uciStarts[t.Choose(len(uciStarts))]
	g, _ := rules.NewGame(st)
	randomLine(t, g, t.Choose(6), t.Choose(4))
	if err := setup(ctx, b.E, g); err != nil {
		res.Discarded = "engine refuses the game"
		cancel()
		return res
	}
	var opt searchctl.Options
	req := "unset"
	want := int(d0) // depth at which the analysis must end by itself (0 = only when halted or mated)
	switch t.Choose(3) {
	case 1:
		opt.DepthLimit = lang.Some(uint(0)) // "zero means no limit", whatever the engine's default
		req, want = "0", 0
	case 2:
		n := t.Range(1, maxD)
		opt.DepthLimit = lang.Some(uint(n))
		req, want = fmt.Sprint(n), n
	}
	res.Tracef("engine mode: wiring=%s default depth=%d requested limit=%s game=%q", w, d0, req, g.FEN())
	horizon := max(want, int(d0), 1) + 2 // an analysis that must not end by itself is followed this far, then halted
	if horizon > maxD+2 {
		horizon = maxD + 2
	}

	fail := func(kind, f string, a ...any) *core.RunResult {
		res.Violate("C15", kind, k.Step, f, a...)
		k.Drain()
		cancel()
		return res
	}
	out, err := b.E.Analyze(ctx, opt)
	if err != nil {
		return fail("analyze-refused", "Analyze: %v", err)
	}
	k.Wait()
	k.Parked()
	var got []search.PV
	closed := false
	read := func() {
		for !closed {
			select {
			case pv, ok := <-out:
				if !ok {
					closed = true
					return
				}
				got = append(got, pv)
				res.Tracef("read depth=%d score=%v pv=%v", pv.Depth, pv.Score, pv.Moves)
			default:
				return
			}
		}
	}
	halted := false
	steps := 0
	for steps < 3000 && !closed && !k.OverBudget() {
		steps++
		k.Step = steps
		k.Wait()
		read()
		if closed {
			break
		}
		if len(got) >= horizon {
			break
		}
		ps := k.RunnableParked()
		if len(ps) == 0 {
			return fail("search-does-not-end", "the analysis neither runs nor ends")
		}
		tk := ps[t.Choose(len(ps))]
		cr := creditChoices[t.Weighted(creditWeights)]
		k.Release(tk, cr)
	}
	// the search sits at iter.sent of its last report: let it decide whether to end or to start the next depth
	for n := 0; n < 12 && !closed; n++ {
		k.Wait()
		read()
		if closed {
			break
		}
		var st *Task
		for _, tk := range k.Parked() {
			if tk.Role == "search" {
				st = tk
			}
		}
		if st == nil || st.Point == GatePoint || !k.Runnable(st) {
			break
		}
		k.Release(st, 0)
	}
	if k.OverBudget() || steps >= 3000 {
		res.Inconclusive["budget"]++
		k.Drain()
		cancel()
		return res
	}
	// depths 1, 2, 3, ...
	for i, pv := range got {
		if pv.Depth != i+1 {
			return fail("depth-skipped", "report %d has depth %d", i+1, pv.Depth)
		}
	}
	if closed {
		// it ended by itself: exactly at the limit, or at a forced mate within the searched depth
		if len(got) == 0 {
			return fail("ended-early", "the analysis ended without reporting depth 1")
		}
		last := got[len(got)-1]
		md, isMate := last.Score.MateDistance()
		mateStop := isMate && int(md) <= last.Depth
		if want > 0 && last.Depth > want {
			return fail("ran-past-depth-limit", "wiring %s, default depth %d, requested limit %s: last iteration %d", w, d0, req, last.Depth)
		}
		if !(want > 0 && last.Depth == want) && !mateStop {
			return fail("ended-early", "wiring %s, engine default depth %d, requested limit %s on %q: the analysis ended by itself after depth %d (score %v); it should end at depth %d (0 = only when halted) or at a forced mate within the searched depth", w, d0, req, g.FEN(), last.Depth, last.Score, want)
		}
		for _, pv := range got[:len(got)-1] {
			if md, ok := pv.Score.MateDistance(); ok && int(md) <= pv.Depth {
				return fail("ran-past-forced-mate", "depth %d reported the forced mate %v, yet depth %d followed", pv.Depth, pv.Score, last.Depth)
			}
		}
		res.Probe("engine-mode-ended-by-itself")
	} else {
		// still running at the horizon: legitimate only if nothing says it should have ended
		for _, pv := range got {
			if md, ok := pv.Score.MateDistance(); ok && int(md) <= pv.Depth {
				return fail("ran-past-forced-mate", "depth %d reported the forced mate %v, yet the analysis went on", pv.Depth, pv.Score)
			}
		}
		if want > 0 && len(got) > want {
			return fail("ran-past-depth-limit", "wiring %s, default depth %d, requested limit %s: depth %d was reported", w, d0, req, len(got))
		}
		res.Probe("engine-mode-still-running-at-horizon")
		// halt it through the engine, from a client task
		var hpv search.PV
		done := false
		go func() {
			k.Park("clientA.halt")
			hpv, _ = b.E.Halt(ctx)
			done = true
			k.Park("clientA.done")
		}()
		halted = true
		before := len(got)
		for n := 0; n < 2000 && !done && !k.OverBudget(); n++ {
			k.Wait()
			read()
			ps := k.Parked()
			var run []*Task
			for _, tk := range ps {
				if !k.Runnable(tk) {
					continue
				}
				run = append(run, tk)
			}
			if len(run) == 0 {
				break
			}
			k.ReleaseWith(run[t.Choose(len(run))], creditChoices[t.Weighted(creditWeights)], 1<<30)
		}
		k.Wait()
		read()
		if !done {
			if k.OverBudget() {
				res.Inconclusive["budget"]++
				k.Drain()
				cancel()
				return res
			}
			return fail("search-does-not-end", "Engine.Halt does not return although every task runs")
		}
		if hpv.Depth < before {
			return fail("halt-returned-shallower-result", "Engine.Halt returned depth %d although depth %d had been reported before", hpv.Depth, before)
		}
		got = append(got[:min(len(got), hpv.Depth)], got[min(len(got), hpv.Depth):]...)
		if hpv.Depth >= 1 && hpv.Depth > len(got) {
			got = append(got, hpv)
		}
	}
	_ = halted
	// every reported iteration equals a direct search of that depth (table off)
	k.Drain()
	for _, pv := range got {
		_, sc, mv, err := b.Root.Search(ctx, &search.Context{TT: search.NoTranspositionTable{}}, b.E.Board(), pv.Depth)
		if err == nil && (sc != pv.Score || !sameMoves(mv, pv.Moves)) {
			res.Violate("C15", "iteration-differs-from-direct-search", steps, "wiring %s on %q: iteration depth=%d reported score=%v pv=%v; a direct depth-%d search gives %v %v", w, g.FEN(), pv.Depth, pv.Score, pv.Moves, pv.Depth, sc, mv)
			break
		}
	}
	cancel()
	res.Steps = steps
	res.TraceHash = k.InterleavingHash()
	res.NonTrivial = len(got) >= 1 && k.evCount >= 5
	res.Digest = fmt.Sprintf("%016x/%d", k.InterleavingHash(), len(got))
	if strings.Contains(req, "0") && d0 > 0 {
		res.Probe("explicit-zero-limit-over-default-depth")
	}
	return res
}
