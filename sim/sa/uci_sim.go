package sa

import (
	"context"
	"fmt"
	"strings"
	"time"

	"github.com/herohde/morlock/pkg/engine"
	"github.com/herohde/morlock/pkg/engine/uci"
	"verif/sim/core"
	"verif/sim/rules"
	"verif/sim/tape"
)

type loopState int

const (
	lsStarting   loopState = iota
	lsIdleParked           // parked at loop.idle
	lsSelecting            // released into the select, waiting for input / ponder
	lsBusy                 // handling a line or a PV
	lsExited
)

type outLine struct {
	step int // step at which the consumer read it
	from int // earliest step at which it can have been written (later than the last complete drain)
	text string
}

// uciSim is one engine behind its real UCI driver, with the controller's view of it.
type uciSim struct {
	k      *Kernel
	t      *tape.Tape
	res    *core.RunResult
	ctx    context.Context
	cancel context.CancelFunc
	b      *Built
	drv    *uci.Driver
	in     chan string
	out    <-chan string
	start  time.Time

	inClosed            bool
	outClosed           bool
	loop                loopState
	iterSent            map[string]bool // search tasks seen parked after reporting an iteration
	afterDeadlineRounds int             // settle: rounds started after the last known timer instant had passed
	clockEvents         int             // clock advances so far (they are events, but not progress of the system)
	loopInCmd           bool            // the loop is between loop.recv (released) and the next loop.idle: it may hold Engine.mu
	mtInFlight          string          // name of a movetime-timer task between its two hooks (it takes Engine.mu)
	lines               []outLine
	stall               int
	deadlines           []time.Duration // known timer instants (relative to start), for choosing clock advances
	steps               int
	maxSteps            int
	budgetHit           bool
	quiet               int // consecutive steps without any observable change (deadlock detection)
	lastCmd             string
	frugal              bool // the running search cannot end by itself: do not burn evaluations on it
	onRelease           func(tk *Task)
	drainedAt           int            // last step at which the output was read until empty
	drainBase           int            // drainedAt as it was when the sync in progress began
	loopMark            int            // work counter when the command loop was last seen at a park point or in its select
	roleW               map[string]int // scheduling bias of this run: a starved role is picked rarely ("slow task" fault)
	delivered           []string
}

func newUCISim(k *Kernel, t *tape.Tape, res *core.RunResult, w Wiring, opts engine.Options) *uciSim {
	s := &uciSim{k: k, t: t, res: res, maxSteps: core.Scale(12000, 40000), iterSent: map[string]bool{}}
	s.ctx, s.cancel = context.WithCancel(context.Background())
	s.b = Build(s.ctx, k, w, opts, int64(t.Choose(1<<16)), int64(t.Choose(1<<16)))
	s.in = make(chan string)
	s.start = time.Now()
	s.drv, s.out = uci.NewDriver(s.ctx, s.b.E, s.in, s.b.UCIOpt...)
	// swarm over scheduling policies: in some runs one role is starved (released rarely while others can run)
	s.roleW = map[string]int{}
	for _, r := range []string{"loop", "search", "fwd", "mt", "hard"} {
		s.roleW[r] = 20
	}
	if t.Chance(1, 3) {
		starved := []string{"mt", "hard", "fwd", "search", "loop"}[t.Choose(5)]
		s.roleW[starved] = 1
		res.Fault("slow-task")
	}
	return s
}

func (s *uciSim) now() time.Duration { return time.Since(s.start) }

// sync waits for quiescence, then refreshes the controller's view and consumes output.
func (s *uciSim) sync() {
	// Every line read during this sync was decided after the last complete drain of an EARLIER sync: a
	// writer that was blocked on the full buffer decided its line before this drain began, so the window
	// of all lines read now starts at the previous drain, not at the one in progress.
	s.drainBase = s.drainedAt
	drained := false
	for {
		s.k.Wait()
		// consuming output may unblock a writer: wait again until nothing moves
		n := s.consume()
		if s.stall == 0 && !s.outClosed {
			drained = true
		}
		if n == 0 {
			break
		}
	}
	if drained {
		s.drainedAt = s.steps
	}
	if s.loop == lsSelecting || s.loop == lsExited {
		s.loopMark = s.k.Work()
	}
	for _, tk := range s.k.Parked() {
		if tk.Role == "search" && tk.Point == IterPoint {
			s.iterSent[tk.Name] = true // this search has completed an iteration
		}
		if tk.Role != "loop" {
			continue
		}
		s.loopMark = s.k.Work()
		switch tk.Point {
		case "loop.idle":
			s.loop = lsIdleParked
			s.loopInCmd = false
		case "loop.recv", "loop.ponder", "loop.expired", "loop.afterAnalyze", "loop.exit", "engine.lock", "halt.enter", "halt.woken", "halt.closed", "halt.unwound", "mutex.lock", "complete.cas":
			s.loop = lsBusy
		}
	}
	if s.mtInFlight != "" {
		for _, tk := range s.k.Parked() {
			if tk.Name == s.mtInFlight && tk.Point == "timer.movetime.done" {
				s.mtInFlight = ""
			}
		}
	}
}

// consume drains the driver's output (unless the consumer is stalled).
func (s *uciSim) consume() int {
	n := 0
	if s.stall > 0 {
		return 0
	}
	for !s.outClosed {
		select {
		case l, ok := <-s.out:
			if !ok {
				s.outClosed = true
				s.loop = lsExited
				s.loopInCmd = false
				s.k.Event("out:closed")
				return n + 1
			}
			n++
			s.lines = append(s.lines, outLine{s.steps, s.drainBase + 1, l})
			if strings.HasPrefix(l, "info ") && len(s.lines) < 400 {
				s.res.Tracef("[%d] < %s", s.steps, l)
			}
			if !strings.HasPrefix(l, "info ") {
				s.k.Event("out:" + l)
			}
			s.quiet = 0
		default:
			return n
		}
	}
	return n
}

// canDeliver: the loop sits in its select with nothing else ready.
func (s *uciSim) canDeliver() bool {
	// with the output buffer full (stalled consumer) a writer may be blocked inside the loop without
	// the controller having seen it park: then "selecting" is not known to be true
	return s.loop == lsSelecting && !s.inClosed && !s.outClosed && len(s.out) < cap(s.out)
}

func (s *uciSim) deliver(line string) bool {
	// every command arrives at its own instant, so that timers started by different commands differ
	time.Sleep(1013 * time.Nanosecond)
	s.k.Wait()
	select {
	case s.in <- line:
		s.loop = lsBusy
		s.lastCmd = line
		s.delivered = append(s.delivered, line)
		s.res.Tracef("[%d] > %s", s.steps, line)
		s.k.Event("in:" + line)
		s.quiet = 0
		s.sync()
		return true
	default:
		// the GUI models have already booked the line as sent: a silent drop would corrupt them
		panic("sim: deliver(" + line + ") although the command loop is not receiving")
	}
}

func (s *uciSim) closeInput() {
	if !s.inClosed {
		close(s.in)
		s.inClosed = true
		s.loop = lsBusy
		s.res.Tracef("[%d] > <EOF>", s.steps)
		s.k.Event("in:EOF")
		s.quiet = 0
		s.sync()
	}
}

// releasable: a task parked in front of Engine.mu may go on only while the lock is free.
func (s *uciSim) releasable(tk *Task) bool {
	return s.k.Runnable(tk)
}

func (s *uciSim) release(tk *Task, credit int) {
	if s.onRelease != nil {
		s.onRelease(tk)
	}
	switch tk.Point {
	case "loop.idle":
		s.loop = lsSelecting
	case "loop.recv":
		s.loopInCmd = true
	case "timer.movetime":
		s.mtInFlight = tk.Name
	}
	// mostly a task runs through its Engine calls undisturbed; sometimes it must stop in front of each lock
	lockPass := 1 << 30
	if tk.Role != "search" && s.t.Chance(1, 6) {
		lockPass = s.t.Choose(3)
	}
	s.res.Tracef("[%d] run %s@%s +%d", s.steps, tk.Name, tk.Point, credit)
	s.k.ReleaseWith(tk, credit, lockPass)
	s.quiet = 0
}

var creditChoices = []int{0, 1, 3, 10, 50, 400, 5000}

var creditWeights = []int{2, 2, 2, 3, 4, 6, 8}

// drawCredit: searches that only end when told to (infinite) get small credits, the others large ones.
func (s *uciSim) drawCredit() int {
	if s.frugal {
		return creditChoices[s.t.Choose(5)]
	}
	return creditChoices[s.t.Weighted(creditWeights)]
}

func (s *uciSim) advance(d time.Duration) {
	s.res.Tracef("[%d] clock +%v", s.steps, d)
	s.k.Event(fmt.Sprintf("clock+%d", d))
	s.clockEvents++
	time.Sleep(d)
	s.res.SimNanos += int64(d)
}

// nextDeadline returns the time to the next known timer instant (0 if none).
func (s *uciSim) nextDeadline() time.Duration {
	now := s.now()
	best := time.Duration(0)
	for _, d := range s.deadlines {
		if d > now && (best == 0 || d-now < best) {
			best = d - now
		}
	}
	return best
}

var clockChoices = []time.Duration{time.Millisecond, 7 * time.Millisecond, 60 * time.Millisecond, 500 * time.Millisecond, 4 * time.Second, time.Minute}

// stepRandom performs one tape-chosen controller step among the enabled ones:
// release a parked task, deliver the GUI's next line, advance the clock, stall the consumer.
// gui returns the next line to deliver ("" = none now).
func (s *uciSim) stepRandom(gui func() string, wDeliver, wClock int) {
	s.steps++
	s.k.Step = s.steps
	if s.stall > 0 {
		s.stall--
	}
	parked := s.k.Parked()
	var rel []*Task
	for _, tk := range parked {
		if s.releasable(tk) {
			rel = append(rel, tk)
		}
	}
	if s.nextDeadline() == 0 {
		wClock = 1 // no timer is known to be pending: time passing changes little
	}
	w := []int{0, 0, wClock, 0}
	if len(rel) > 0 {
		w[0] = 10
	}
	if s.canDeliver() {
		w[1] = wDeliver
	}
	if s.stall == 0 && s.t.Chance(1, 60) {
		w[3] = 1
	}
	switch s.t.Weighted(w) {
	case 0:
		tk := s.pick(rel)
		cr := 0
		if tk.Role == "search" {
			cr = s.drawCredit()
		}
		s.release(tk, cr)
	case 1:
		if line := gui(); line != "" {
			if line == "<EOF>" {
				s.closeInput()
			} else {
				s.deliver(line)
			}
		} else if len(rel) > 0 {
			// the GUI has nothing to say right now: let something run instead
			tk := s.pick(rel)
			cr := 0
			if tk.Role == "search" {
				cr = s.drawCredit()
			}
			s.release(tk, cr)
		}
	case 2:
		d := clockChoices[s.t.Choose(len(clockChoices))]
		if nd := s.nextDeadline(); nd > 0 && s.t.Chance(1, 2) {
			d = nd
			if s.t.Chance(1, 3) {
				d = nd - 1
				if d <= 0 {
					d = 1
				}
			}
		}
		s.advance(d)
		s.quiet++
	case 3:
		s.stall = 5 + s.t.Choose(200)
		if s.t.Chance(1, 4) {
			s.stall = 300 + s.t.Choose(1500) // long enough for the driver's output buffer to fill up and block its writers
			s.res.Fault("stall-out-long")
		}
		s.res.Fault("stall-out")
		s.res.Tracef("[%d] consumer stalls for %d steps", s.steps, s.stall)
	}
	s.sync()
}

// settle: no more GUI input; release everything fairly and let time pass until cond() or the budget ends.
// It is the "after the last fault" phase: liveness is judged only here.
func (s *uciSim) settle(cond func() bool, maxRounds int) bool {
	s.stall = 0
	s.afterDeadlineRounds = 0
	s.sync()
	for r := 0; r < maxRounds; r++ {
		if cond() {
			return true
		}
		if s.k.OverBudget() {
			s.budgetHit = true
			return cond()
		}
		// time may always pass: a limit that is still ahead is reached first (a running search would otherwise
		// keep the settle phase busy until the evaluation budget is gone, with no timer ever firing)
		if d := s.nextDeadline(); d > 0 {
			time.Sleep(d)
			s.res.SimNanos += int64(d)
			s.sync()
		} else {
			s.afterDeadlineRounds++
		}
		s.steps++
		progressed := false
		for _, tk := range s.k.Parked() {
			if !s.releasable(tk) {
				continue
			}
			cr := 0
			if tk.Role == "search" {
				cr = 20000
			}
			s.release(tk, cr)
			s.sync()
			progressed = true
			if cond() {
				return true
			}
		}
		if !progressed {
			// nothing to run: let time pass (movetime, soft and hard limits)
			d := s.nextDeadline()
			if d == 0 || r%3 == 2 {
				d = time.Hour
			}
			time.Sleep(d)
			s.res.SimNanos += int64(d)
			s.sync()
		}
	}
	return cond()
}

// clockSettle: used when the evaluation budget is gone. Time passes (to the next known timer instant, else
// an hour), then every task that can run is released, a search with a credit of a few hundred evaluations
// (the budget is extended by that much; the allowance is deliberately far more than "the search notices at
// its next poll" needs, so that a search that polls every few thousand nodes is still given the time).
func (s *uciSim) clockSettle(cond func() bool, rounds int) bool {
	s.stall = 0
	s.k.ExtendBudget(rounds * 250)
	s.sync()
	for r := 0; r < rounds; r++ {
		if cond() {
			return true
		}
		d := s.nextDeadline()
		if d == 0 {
			d = time.Hour
		}
		time.Sleep(d)
		s.res.SimNanos += int64(d)
		s.sync()
		s.steps++
		for _, tk := range s.k.Parked() {
			if !s.releasable(tk) {
				continue
			}
			cr := 0
			if tk.Role == "search" {
				cr = 250
			}
			s.release(tk, cr)
			s.sync()
			if cond() {
				return true
			}
		}
	}
	return cond()
}

// searchOfThisGoReported: a search task created after ordinal ord has completed an iteration.
func (s *uciSim) searchReportedSince(ord int) bool {
	for name := range s.iterSent {
		var n int
		if _, err := fmt.Sscanf(name, "search#%d", &n); err == nil && n > ord {
			return true
		}
	}
	return false
}

// teardown ends the session: EOF if still open, then everything runs free and the root context is cancelled.
func (s *uciSim) teardown() {
	s.stall = 0
	if !s.inClosed && !s.outClosed {
		// deliver EOF at a point where the loop can take it deterministically
		s.settle(func() bool { return s.canDeliver() || s.outClosed }, 200)
		s.closeInput()
	}
	s.settle(func() bool { return s.outClosed }, 300)
	s.k.Drain()
	s.cancel()
	// whatever still runs must see the cancelled context; keep consuming so that nobody blocks on output
	for i := 0; i < 50 && !s.outClosed; i++ {
		time.Sleep(time.Hour)
		s.k.Wait()
		s.consume()
	}
	if !s.k.LockHeld() {
		// (held at a quiescent point: its holder is stuck inside an Engine call, and so would the controller be)
		s.b.E.Halt(s.ctx)
	}
	time.Sleep(24 * time.Hour)
	s.k.Wait()
	s.consume()
}

// model of the GUI side -----------------------------------------------------

// posCmd is a position command and the game it describes.
type posCmd struct {
	text string
	game *rules.Game
}

const startFEN = "rnbqkbnr/pppppppp/8/8/8/8/PPPPPPPP/RNBQKBNR w KQkq - 0 1"

func buildPosCmd(fenText string, g *rules.Game) posCmd {
	var sb strings.Builder
	if fenText == startFEN && g.StartHalf == 0 && g.StartFull == 1 {
		sb.WriteString("position startpos")
	} else {
		sb.WriteString("position fen " + g.Start.FEN(g.StartHalf, g.StartFull))
	}
	if len(g.Moves) > 0 {
		sb.WriteString(" moves")
		for _, m := range g.Moves {
			sb.WriteString(" " + m.UCI())
		}
	}
	return posCmd{text: sb.String(), game: g.Clone()}
}

// randomLine plays n legal plies on g with a repetition bias.
func randomLine(t *tape.Tape, g *rules.Game, n, pReverse int) {
	for i := 0; i < n; i++ {
		cur := g.Pos()
		legal := cur.LegalMoves()
		if len(legal) == 0 {
			return
		}
		m := legal[t.Choose(len(legal))]
		if k := len(g.Moves); k >= 2 && t.Choose(10) < pReverse {
			rev := rules.Move{From: g.Moves[k-2].To, To: g.Moves[k-2].From}
			if cur.IsLegal(rev) {
				m = rev
			}
		}
		g.Moves = append(g.Moves, m)
	}
}

func durMs(ms int) time.Duration { return time.Duration(ms) * time.Millisecond }

// pick chooses the task to release, weighted by this run's scheduling bias.
func (s *uciSim) pick(rel []*Task) *Task {
	w := make([]int, len(rel))
	for i, tk := range rel {
		w[i] = s.roleW[tk.Role]
		if w[i] == 0 {
			w[i] = 20
		}
	}
	return rel[s.t.Weighted(w)]
}

// blockedWork: evaluations spent by searches since the command loop was last seen at a park point or
// in its select. The loop only ever waits for a search to finish its first iteration or to unwind
// after a halt; tens of thousands of evaluations with the loop stuck mean it waits for something
// that is not coming (a search nobody controls any more).
func (s *uciSim) blockedWork() int { return s.k.Work() - s.loopMark }
