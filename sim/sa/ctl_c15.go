package sa

import (
	"context"
	"fmt"
	"strings"
	"time"

	"github.com/herohde/morlock/pkg/board"
	"github.com/herohde/morlock/pkg/eval"
	"github.com/herohde/morlock/pkg/search"
	"github.com/herohde/morlock/pkg/search/searchctl"
	"github.com/seekerror/stdlib/pkg/lang"
	"verif/sim/core"
	"verif/sim/sb"
	"verif/sim/tape"
)

type halter struct {
	name        string
	released    int // step at which it was let go (0 = not yet)
	maxBefore   int // deepest depth the reader had taken when it was released
	d1Before    bool
	endedBefore bool // the analysis had already ended by itself when the halt was requested
	done        bool
	viaCtx      bool // halts by cancelling the context the analysis was launched with, not through Handle.Halt
	pv          search.PV
}

// SessionC15 drives Iterative.Launch / Handle.Halt / TimeControl directly.
func SessionC15(t *tape.Tape) *core.RunResult { return sessionIter(t, "C15") }

// SessionC12Iter is the same kind of session judged for C12 at the level of the analysis: there is
// always at least one halter (Handle.Halt by one or two clients, the launch context cancelled, the
// hard-limit timer), halting at a tape-chosen instant while the search is parked mid-tree. Judged:
// nothing a halted analysis reports after the halt was requested is anything but a completed
// iteration's true result ("reports that it was halted rather than a score"), the board is handed
// back as received once Halt has returned and once the analysis has ended, and it does end.
func SessionC12Iter(t *tape.Tape) *core.RunResult { return sessionIter(t, "C12") }

var c12Kinds = map[string]bool{"halted-search-reports-result": true, "board-not-restored-after-halt": true, "search-does-not-end": true}

func sessionIter(t *tape.Tape, prop string) *core.RunResult {
	res := core.NewResult()
	k := NewKernel(t, res)
	defer k.Uninstall()
	k.PassThrough("tt.read", "tt.loaded", "tt.cas")
	for _, p := range []string{"iter.searched", "halt.enter", "halt.closed"} {
		if t.Chance(1, 2) {
			k.PassThrough(p)
		}
	}
	if prop == "C15" && t.Chance(1, 3) {
		return sessionC15Engine(t, res, k)
	}
	b, g, ok := sb.PlayHistory(t, res, t.Chance(1, 2), 6, 1)
	if !ok {
		return res
	}
	cur := g.Pos()
	cfg := sb.DrawCfg(t, &cur)
	root := cfg.Search(func(e eval.Evaluator) eval.Evaluator { return Gate{K: k, Inner: e} })
	direct := cfg.Search(nil)
	ctx, cancel := context.WithCancel(context.Background())

	limit := t.Choose(cfg.MaxDepth() + 1) // 0 = no depth limit
	useTT := t.Chance(1, 4)
	var tt search.TranspositionTable = search.NoTranspositionTable{}
	if useTT {
		tt = search.NewTranspositionTable(ctx, uint64(16<<t.Choose(8))<<5)
	}
	var opt searchctl.Options
	opt.DepthLimit = lang.Some(uint(limit))
	var hard time.Duration
	haveTC := t.Chance(1, 3)
	if haveTC {
		tc := searchctl.TimeControl{
			White: time.Duration([]int{1, 50, 2000, 60000, 600000}[t.Choose(5)]) * time.Millisecond,
			Black: time.Duration([]int{1, 50, 2000, 60000, 600000}[t.Choose(5)]) * time.Millisecond,
			Moves: t.Choose(41),
		}
		opt.TimeControl = lang.Some(tc)
		// (4) the limits granted never exceed the time left (a statement about Limits itself)
		for _, c := range []board.Color{board.White, board.Black} {
			rem := tc.White
			if c == board.Black {
				rem = tc.Black
			}
			soft, hd := tc.Limits(c)
			if hd > rem || soft > hd || soft < 0 {
				res.Violate("C15", "hard-limit-exceeds-clock", 0, "TimeControl%+v.Limits(%v) = soft %v, hard %v with %v left on the clock", tc, c, soft, hd, rem)
				cancel()
				return res
			}
		}
		_, hard = tc.Limits(b.Turn())
	}
	res.Tracef("%s limit=%d table=%v timecontrol=%v on %q", cfg, limit, useTT, opt.TimeControl, g.FEN())
	if useTT && t.Chance(1, 2) {
		// the table already knows this root from an earlier, deeper or shallower search of the same game (a
		// repeated go, a position reached along an earlier principal variation): the analysis still starts
		// at depth 1 and still ends at its own limit
		dPre := t.Range(1, cfg.MaxDepth())
		direct.Search(sb.BudgetCtx(400000), &search.Context{TT: tt}, b.Fork(), dPre)
		res.Tracef("table pre-filled by a depth-%d search of the same root", dPre)
		res.Probe("table-knows-the-root-already")
	}

	fork := b.Fork()
	snapF := sb.Snap(fork)
	it := &searchctl.Iterative{Root: root}
	start := time.Now()
	h, out := it.Launch(ctx, fork, tt, eval.Random{}, opt)

	hw := []int{3, 5, 2}
	if prop == "C12" {
		hw = []int{0, 5, 3}
	}
	nHalters := t.Weighted(hw)
	var halters []*halter
	for i := 0; i < nHalters; i++ {
		hl := &halter{name: fmt.Sprintf("client%c#1", 'A'+i), viaCtx: t.Chance(1, 4)}
		halters = append(halters, hl)
		pfx := fmt.Sprintf("client%c", 'A'+i)
		go func() {
			k.Park(pfx + ".halt")
			if hl.viaCtx {
				cancel()
			} else {
				hl.pv = h.Halt()
			}
			hl.done = true
			k.Park(pfx + ".done")
		}()
	}
	readerKeepsUp := t.Chance(2, 3)

	var got []search.PV
	var gotAfterHalt []bool // the report was taken from the channel after a halt had been requested
	closed := false
	d1Complete := false // the search passed iter.sent for depth 1, or ended
	hardFired := false
	steps := 0
	haltRequested := false
	ctxCancelled := false
	read := func() {
		for {
			select {
			case pv, ok := <-out:
				if !ok {
					if !closed {
						closed = true

					}
					return
				}
				got = append(got, pv)
				gotAfterHalt = append(gotAfterHalt, haltRequested)
				res.Tracef("[%d] read depth=%d score=%v pv=%v", steps, pv.Depth, pv.Score, pv.Moves)
			default:
				return
			}
		}
	}
	maxRead := func() int {
		m := 0
		for _, pv := range got {
			m = max(m, pv.Depth)
		}
		return m
	}
	fail := func(kind, f string, a ...any) *core.RunResult {
		if prop == "C12" && !c12Kinds[kind] {
			// C15's business (and C15's own check reports it): no verdict here
			res.Inconclusive["c15-matter:"+kind]++
			k.Drain()
			cancel()
			return res
		}
		if prop == "C15" && c12Kinds[kind] && kind != "search-does-not-end" {
			panic("sim: a C12 verdict in a C15 session")
		}
		res.Violate(prop, kind, steps, f, a...)
		k.Drain()
		cancel()
		return res
	}

	maxSteps := 3000
	openEnded := limit == 0 && !haveTC // only a halt can end it
	frugalAfter := 0
	mutexStuck := 0
	for steps < maxSteps && !k.OverBudget() {
		steps++
		k.Wait()
		parked := k.Parked()
		if openEnded {
			// once every halter has been let go (or there is none) nothing new can happen: stop after a few more steps
			pending := false
			for _, hl := range halters {
				if hl.released == 0 {
					pending = true
				}
			}
			if !pending {
				frugalAfter++
				if frugalAfter > 25 && !haltRequested {
					break
				}
			}
		}
		// bookkeeping from the parked set
		for _, tk := range parked {
			if tk.Role == "search" && tk.Point == "iter.sent" {
				d1Complete = true
				if readerKeepsUp {
					read()
				}
			}
		}
		runnable := k.RunnableParked()
		if len(parked) > 0 && len(runnable) == 0 {
			// everything that is parked waits in front of a mutex whose holder is blocked inside its section
			mutexStuck++
			if mutexStuck > 6 {
				res.Probe("tasks-stuck-in-front-of-a-mutex")
				break
			}
		}
		if len(runnable) == 0 {
			read()
			if closed {
				break
			}
			// nothing parked: only time can move things (a halter waiting for depth 1 cannot: that needs the search)
			time.Sleep(time.Duration([]int{1, 20, 1000, 60000}[t.Choose(4)]) * time.Millisecond)
			res.SimNanos += int64(time.Millisecond)
			continue
		}
		w := []int{10, 2, 2}
		switch t.Weighted(w) {
		case 0:
			tk := runnable[t.Choose(len(runnable))]
			cr := 0
			if tk.Role == "search" {
				cr = creditChoices[t.Weighted(creditWeights)]
				if openEnded {
					cr = creditChoices[t.Choose(5)]
				}
			}
			if tk.Role == "hard" {
				hardFired = true
				res.Fault("clock-jump")
			}
			if strings.HasPrefix(tk.Role, "client") && strings.HasSuffix(tk.Point, ".halt") {
				for _, hl := range halters {
					if hl.name == tk.Name {
						hl.released = steps
						hl.maxBefore = maxRead()
						hl.d1Before = d1Complete
						read()
						hl.endedBefore = closed
						haltRequested = true
						if hl.viaCtx {
							ctxCancelled = true
							res.Probe("halt-by-context-cancellation")
						}
						res.Fault("halt@step")
						if !d1Complete {
							res.Probe("halt-before-depth-1")
						} else if closed {
							res.Probe("halt-after-natural-end")
						} else {
							res.Probe("halt-between-or-inside-iterations")
						}
					}
				}
			}
			res.Tracef("[%d] run %s@%s +%d", steps, tk.Name, tk.Point, cr)
			k.Release(tk, cr)
		case 1:
			read()
		case 2:
			d := time.Duration([]int{1, 20, 1000, 60000, 700000}[t.Choose(5)]) * time.Millisecond
			if haveTC && t.Chance(1, 2) {
				d = hard
			}
			res.Tracef("[%d] clock +%v", steps, d)
			time.Sleep(d)
			res.SimNanos += int64(d)
		}
		k.Wait()
		// (3) a halter that has returned
		for _, hl := range halters {
			if hl.done && hl.released > 0 && hl.maxBefore >= 0 {
				read()
				if hl.viaCtx {
					hl.maxBefore = -1 // nothing is returned to a halter that cancels the context
					continue
				}
				// Halt has returned, so the search goroutine has exited: the board is as it was handed over
				if d := snapF.Diff(sb.Snap(fork)); d != "" && prop == "C12" {
					return fail("board-not-restored-after-halt", "Halt() has returned (to %s), yet the board the analysis was given differs from the one handed over in %s: the search is still inside its tree", hl.name, d)
				}
				if hl.pv.Depth < 1 && !hl.endedBefore && !ctxCancelled {
					return fail("halt-returned-before-depth-1", "Halt() returned %v (no completed iteration) although the analysis was still running when the halt was requested (first iteration complete at that moment: %v)", hl.pv, hl.d1Before)
				}
				if hl.pv.Depth >= 1 && (hl.pv.Score.IsInvalid() || (len(hl.pv.Moves) == 0 && len(cur.LegalMoves()) > 0)) {
					return fail("halt-returned-incomplete-iteration", "Halt() returned depth=%d score=%v pv=%v: not the result of a completed iteration", hl.pv.Depth, hl.pv.Score, hl.pv.Moves)
				}
				if hl.pv.Depth < hl.maxBefore {
					return fail("halt-returned-shallower-result", "Halt() returned depth %d although depth %d had been reported before the halt was requested", hl.pv.Depth, hl.maxBefore)
				}
				if hl.pv.Depth >= 1 && !useTT {
					_, sc, mv, err := direct.Search(sb.BudgetCtx(400000), &search.Context{TT: search.NoTranspositionTable{}}, b.Fork(), hl.pv.Depth)
					if err == nil && (sc != hl.pv.Score || !sameMoves(mv, hl.pv.Moves)) {
						return fail("halt-returned-incomplete-iteration", "Halt() returned depth=%d score=%v pv=%v; a direct depth-%d search gives %v %v", hl.pv.Depth, hl.pv.Score, hl.pv.Moves, hl.pv.Depth, sc, mv)
					}
				}
				hl.maxBefore = -1 // judged
			}
		}
		if closed && len(k.Parked()) == 0 {
			break
		}
	}
	if k.OverBudget() || steps >= maxSteps {
		res.Inconclusive[fmt.Sprintf("budget gate=%v amb=%v steps=%v limit=%d tc=%v", k.GateN > GateBudget, k.Ambiguous, steps >= maxSteps, limit, haveTC)]++
		k.Drain()
		cancel()
		res.Steps = steps
		res.TraceHash = k.InterleavingHash()
		return res
	}
	read()
	// liveness after the last fault: once halted (or limited), the channel closes when everything runs
	// under a time control the analysis must end once the hard limit has passed on the simulated clock
	// (whether or not a timer task was ever seen: a limit that is never armed must not go unnoticed)
	tcExpired := haveTC && time.Since(start) > hard
	if haveTC && !tcExpired && !closed && !haltRequested && limit == 0 {
		time.Sleep(hard + time.Millisecond)
		res.SimNanos += int64(hard)
		tcExpired = true
		res.Fault("clock-jump")
	}
	if !closed && (haltRequested || limit > 0 || hardFired || tcExpired) {
		for r := 0; r < 400 && !closed && !k.OverBudget(); r++ {
			k.Wait()
			ps := k.RunnableParked()
			if len(ps) == 0 {
				time.Sleep(time.Hour)
			}
			for _, tk := range ps {
				if !k.Runnable(tk) {
					continue // the task released just before took the mutex this one waits for
				}
				k.Release(tk, 20000)
				k.Wait()
				read()
			}
			read()
		}
		if !closed && !k.OverBudget() {
			return fail("search-does-not-end", "limit=%d halt requested=%v hard timer fired=%v hard limit (%v) passed on the clock=%v: the PV channel is still open after a settle phase in which every task ran", limit, haltRequested, hardFired, hard, tcExpired)
		}
	}
	// (1) reported depths and contents
	prev := 0
	for i, pv := range got {
		if prop == "C15" && pv.Depth <= prev {
			return fail("depths-not-increasing", "depth %d reported after depth %d", pv.Depth, prev)
		}
		if prop == "C15" && readerKeepsUp && pv.Depth != prev+1 {
			return fail("depth-skipped", "depth %d reported after depth %d although every iteration was read as it was sent", pv.Depth, prev)
		}
		prev = pv.Depth
		if pv.Score.IsInvalid() || (len(pv.Moves) == 0 && len(cur.LegalMoves()) > 0) {
			// (whatever the table: a report without a score or without a move is not a completed iteration)
			kind := "iteration-differs-from-direct-search"
			if prop == "C12" && gotAfterHalt[i] {
				kind = "halted-search-reports-result"
			}
			return fail(kind, "the analysis reported depth=%d score=%v pv=%v (halt requested before it was read: %v): not the result of a completed iteration", pv.Depth, pv.Score, pv.Moves, gotAfterHalt[i])
		}
		if !useTT {
			_, sc, mv, err := direct.Search(sb.BudgetCtx(400000), &search.Context{TT: search.NoTranspositionTable{}}, b.Fork(), pv.Depth)
			if err == nil && (sc != pv.Score || !sameMoves(mv, pv.Moves)) {
				if prop == "C12" && gotAfterHalt[i] {
					return fail("halted-search-reports-result", "after the halt was requested the analysis reported depth=%d score=%v pv=%v, which is not the result of a completed depth-%d search (%v %v): a halted search must report that it was halted, not a score", pv.Depth, pv.Score, pv.Moves, pv.Depth, sc, mv)
				}
				return fail("iteration-differs-from-direct-search", "iteration depth=%d reported score=%v pv=%v; a direct depth-%d search gives %v %v (%s)", pv.Depth, pv.Score, pv.Moves, pv.Depth, sc, mv, cfg)
			}
		}
	}
	// (2) where it ends by itself
	// (also for a reader that lags: the newest report replaces an unread one, so the last report read
	// after the natural end is the final iteration)
	if closed && !haltRequested && !hardFired && len(got) > 0 {
		last := got[len(got)-1]
		md, isMate := last.Score.MateDistance()
		mateStop := isMate && int(md) <= last.Depth
		softStop := haveTC // the soft limit may stop deepening after any iteration
		if limit > 0 && last.Depth > limit {
			return fail("ran-past-depth-limit", "depth limit %d, last iteration reported %d", limit, last.Depth)
		}
		if !(limit > 0 && last.Depth == limit) && !mateStop && !softStop {
			return fail("ended-early", "the analysis ended by itself after depth %d (score %v) with depth limit %d, no forced mate within the depth and no time control", last.Depth, last.Score, limit)
		}
		for _, pv := range got[:len(got)-1] {
			if md, ok := pv.Score.MateDistance(); ok && int(md) <= pv.Depth {
				return fail("ran-past-forced-mate", "depth %d reported the forced mate %v, yet depth %d followed", pv.Depth, pv.Score, last.Depth)
			}
		}
		res.Probe("ended-by-itself")
		if mateStop {
			res.Probe("mate-stops-early")
		}
	}
	if closed && haveTC && hardFired {
		res.Probe("hard-timer-fired")
	}
	if !closed {
		res.Probe("still-open-without-limit")
	}
	if closed && prop == "C12" && (haltRequested || hardFired) {
		if d := snapF.Diff(sb.Snap(fork)); d != "" {
			return fail("board-not-restored-after-halt", "the halted analysis has ended, yet the board it was given differs from the one handed over in %s", d)
		}
		res.Probe("board-compared-after-halted-analysis")
	}
	if !closed {
		// the final halt is a simulated client too (the controller itself must never wait inside the code
		// under test): it must come back once everything that can run has run
		fin := false
		go func() {
			k.Park("clientZ.halt")
			h.Halt()
			fin = true
			k.Park("clientZ.done")
		}()
		k.Wait()
		stuck := 0
		for r := 0; r < 400 && !fin && !k.OverBudget() && stuck < 3; r++ {
			k.Wait()
			n := 0
			for _, tk := range k.Parked() {
				if strings.HasSuffix(tk.Point, ".done") || !k.Runnable(tk) {
					continue
				}
				n++
				k.Release(tk, 20000)
				k.Wait()
				read()
			}
			if n == 0 {
				stuck++
				time.Sleep(time.Hour)
			}
		}
		if !fin && !k.OverBudget() {
			return fail("search-does-not-end", "a final Halt() does not return although every task that can run has run (%s)", describeParked(k.Parked()))
		}
	}
	k.Drain()
	cancel()
	time.Sleep(time.Hour)
	k.Wait()
	res.Steps = steps
	res.TraceHash = k.InterleavingHash()
	res.NonTrivial = len(got) >= 1 && k.evCount >= 5
	res.Digest = fmt.Sprintf("%016x/%d", k.InterleavingHash(), len(got))
	return res
}

func sameMoves(a, b []board.Move) bool {
	if len(a) != len(b) {
		return false
	}
	for i := range a {
		if !a[i].Equals(b[i]) {
			return false
		}
	}
	return true
}
