package sa

import (
	"context"
	"fmt"
	"github.com/herohde/morlock/pkg/board"
	"github.com/herohde/morlock/pkg/eval"
	"verif/sim/bridge"

	"github.com/herohde/morlock/pkg/engine"
	"github.com/herohde/morlock/pkg/search"
	"github.com/herohde/morlock/pkg/search/searchctl"
	"github.com/seekerror/stdlib/pkg/lang"
	"verif/sim/core"
	"verif/sim/rules"
	"verif/sim/sb"
	"verif/sim/tape"
)

type pvRec struct {
	Depth int
	Score string
	Moves string
	Nodes uint64
}

func recOf(pv search.PV) pvRec {
	ms := ""
	for _, m := range pv.Moves {
		ms += fmt.Sprintf("%v%v%v ", m.From, m.To, m.Promotion)
	}
	return pvRec{pv.Depth, pv.Score.String(), ms, pv.Nodes}
}

// engSim is one engine driven through its Go API by the controller.
type engSim struct {
	name   string
	b      *Built
	out    <-chan search.PV
	pvs    []pvRec
	fills  []float64 // PV.Hash per reported iteration (the table's fill fraction when the iteration ended)
	closed bool
	before string
	snap   sb.BoardSnap
	busy   bool // a client task may hold Engine.mu
}

func setup(ctx context.Context, e *engine.Engine, g *rules.Game) error {
	if err := e.Reset(ctx, g.Start.FEN(g.StartHalf, g.StartFull)); err != nil {
		return err
	}
	for _, m := range g.Moves {
		if err := e.Move(ctx, m.UCI()); err != nil {
			return err
		}
	}
	return nil
}

func (e *engSim) read() {
	for e.out != nil && !e.closed {
		select {
		case pv, ok := <-e.out:
			if !ok {
				e.closed = true
				return
			}
			e.pvs = append(e.pvs, recOf(pv))
			e.fills = append(e.fills, pv.Hash)
		default:
			return
		}
	}
}

// SessionC18: several engines in one bubble, their gated searches interleaved by the seeded scheduler, vs. solo runs.
func SessionC18(t *tape.Tape) *core.RunResult { return sessionEngines(t, false) }

// SessionC17Engine is the same kind of session with the hash table always on and one Zobrist seed for
// all engines, judged for C17's fill-fraction clause at the engine level: Engine.Reset gives the engine
// an empty table, so a completed analysis after any number of earlier (completed or halted) analyses and
// a Reset must report, iteration by iteration, the fill fraction the same analysis reports on a fresh
// engine; and every reported fraction lies in [0,1].
func SessionC17Engine(t *tape.Tape) *core.RunResult { return sessionEngines(t, true) }

func sessionEngines(t *tape.Tape, fill bool) *core.RunResult {
	res := core.NewResult()
	k := NewKernel(t, res)
	defer k.Uninstall()
	k.PassThrough("tt.read", "tt.loaded", "tt.cas", "iter.searched", "halt.enter", "halt.closed")
	ctx, cancel := context.WithCancel(context.Background())
	defer cancel()

	w := Wiring(t.Choose(int(NumWirings)))
	noise := uint(0)
	if t.Chance(1, 3) {
		noise = []uint{10, 300}[t.Choose(2)]
	}
	// the game
	st := startFEN
	if t.Chance(1, 2) {
		st = uciStarts[t.Choose(len(uciStarts))]
	}
	g, _ := rules.NewGame(st)
	randomLine(t, g, t.Choose(10), t.Choose(6))
	maxDepth := 2
	if w == Morlock || w == Bernstein {
		maxDepth = 3
	}
	depth := t.Range(1, maxDepth)
	predecessor := t.Chance(2, 3) // an earlier, completed analysis on the same engine
	if fill {
		noise, predecessor = 0, true
	}
	var g0 *rules.Game
	predDepth := 1
	if predecessor {
		if t.Chance(1, 2) {
			// of another position
			g0, _ = rules.NewGame(startFEN)
			randomLine(t, g0, t.Choose(6), 0)
		} else {
			// of the very same position, but set up from its FEN: same placement (and hash), different history
			cur := g.Pos()
			g0 = &rules.Game{Start: cur, StartHalf: g.Half(), StartFull: g.Full()}
			predDepth = depth
			res.Probe("predecessor-same-position-other-history")
		}
		if fill {
			predDepth = t.Range(1, maxDepth)
		}
	}
	seed0 := int64(t.Choose(1 << 16))
	// Hash on in some runs: every analysis here starts with Engine.Reset, which is documented to give the
	// engine a new table, so even then "no hash table is carried over" and the solo result must repeat.
	hash := uint(0)
	if t.Chance(1, 3) {
		hash = 1
		res.Probe("hash-on-reset-before-each-analysis")
	}
	if fill {
		hash = uint(1 + t.Choose(2))
	}
	opts := engine.Options{Depth: 0, Hash: hash, Noise: noise}
	res.Tracef("wiring=%s noise=%d hash=%d depth=%d predecessor=%v game=%q", w, noise, hash, depth, predecessor, g.FEN())
	steps := 0

	// a detour on the engine's own game before the analysis: a move played and taken back (castling if there
	// is one). The game state is the same as without it, so the analysis must be, too.
	var detour *rules.Move
	if !fill && t.Chance(1, 3) {
		cur := g.Pos()
		if legal := cur.LegalMoves(); len(legal) > 0 {
			m := legal[t.Choose(len(legal))]
			for _, x := range legal {
				if cur.Describe(x).Castle && t.Chance(3, 4) {
					m = x
					res.Probe("detour-castling-and-take-back")
				}
			}
			detour = &m
			res.Probe("detour-move-and-take-back")
		}
	}
	// the earlier analysis of an engine may have run under other options: noise on then, off now (options
	// take effect at the next Reset, which every analysis here starts with)
	noisyPred := !fill && noise == 0 && predecessor && t.Chance(1, 3)
	if noisyPred {
		res.Probe("predecessor-analysed-with-noise-on")
	}
	analyze := func(e *engSim, gm *rules.Game, d int) bool {
		if noisyPred && e.name != "solo" {
			if gm == g0 {
				e.b.E.SetNoise(50)
			} else {
				e.b.E.SetNoise(0)
			}
		}
		if err := setup(ctx, e.b.E, gm); err != nil {
			res.Discarded = "engine refuses the game: " + err.Error()
			return false
		}
		if detour != nil && gm == g && e.name != "solo" {
			if err := e.b.E.Move(ctx, detour.UCI()); err != nil {
				res.Discarded = "engine refuses a legal move: " + err.Error()
				return false
			}
			if err := e.b.E.TakeBack(ctx); err != nil {
				res.Violate("C18", "analysis-changed-game", steps, "%s: TakeBack right after Move(%s): %v", e.name, detour.UCI(), err)
				return false
			}
		}
		e.before = e.b.E.Position()
		e.snap = sb.Snap(e.b.E.Board())
		out, err := e.b.E.Analyze(ctx, searchctl.Options{DepthLimit: lang.Some(uint(d))})
		if err != nil {
			res.Violate("C18", "analyze-refused", steps, "%s: Analyze: %v", e.name, err)
			return false
		}
		e.out, e.closed, e.pvs, e.fills = out, false, nil, nil
		// let the new search goroutine reach its first park point alone, so that it is named replayably
		k.Wait()
		k.Parked()
		return true
	}
	checkGame := func(e *engSim, when string) bool {
		if e.busy || k.LockHeld() {
			return true // a client task is inside an Engine call: the controller must not queue up behind it
		}
		if p := e.b.E.Position(); p != e.before {
			res.Violate("C18", "analysis-changed-game", steps, "%s: Engine.Position() %s analysis is %q, before it was %q", e.name, when, p, e.before)
			return false
		}
		if d := e.snap.Diff(sb.Snap(e.b.E.Board())); d != "" {
			res.Violate("C18", "analysis-changed-game", steps, "%s: Engine.Board() %s analysis differs in %s", e.name, when, d)
			return false
		}
		return true
	}
	// runAll drives the given engines until all their channels are closed; the tape picks who advances.
	runAll := func(es []*engSim, random bool) bool {
		for n := 0; n < 4000; n++ {
			steps++
			k.Wait()
			allClosed := true
			for _, e := range es {
				e.read()
				if !e.closed {
					allClosed = false
				}
			}
			if allClosed {
				return true
			}
			if k.OverBudget() {
				return false
			}
			ps := k.Parked()
			if len(ps) == 0 {
				res.Violate("C18", "analysis-stuck", steps, "an analysis with a depth limit neither runs nor ends")
				return false
			}
			var run []*Task
			for _, x := range ps {
				if !k.Runnable(x) {
					continue
				}
				if len(x.Point) > 5 && x.Point[len(x.Point)-5:] == ".done" {
					continue
				}
				run = append(run, x)
			}
			if len(run) == 0 {
				res.Violate("C18", "analysis-stuck", steps, "nothing can run although an analysis is open")
				return false
			}
			ps = run
			tk := ps[0]
			cr := 20000
			if random {
				tk = ps[t.Choose(len(ps))]
				cr = creditChoices[t.Weighted(creditWeights)]
				if len(ps) >= 2 {
					res.Probe("two-searches-mid-tree-at-once")
				}
				if t.Chance(1, 6) {
					for _, e := range es {
						if !checkGame(e, "during") {
							return false
						}
					}
				}
			}
			res.Tracef("[%d] run %s@%s +%d", steps, tk.Name, tk.Point, cr)
			k.Release(tk, cr)
		}
		return false
	}
	finishBudget := func() *core.RunResult {
		res.Inconclusive["budget"]++
		k.Drain()
		cancel()
		res.Steps = steps
		res.TraceHash = k.InterleavingHash()
		return res
	}

	// Phase 1: the solo run (same wiring, its own Zobrist seed, otherwise idle bubble)
	solo := &engSim{name: "solo", b: Build(ctx, k, w, opts, seed0, 1)}
	// (the solo run has no predecessor: "searches run before it do not change it"; every analysis starts
	// with Engine.Reset, which re-seeds the noise generator, so the stream is comparable with noise on too)
	if !analyze(solo, g, depth) {
		return res
	}
	if !runAll([]*engSim{solo}, false) {
		if len(res.Violations) > 0 {
			return res
		}
		return finishBudget()
	}
	if !checkGame(solo, "after") {
		return res
	}
	ref, refFills := solo.pvs, solo.fills
	// An independent reference for what "the game state" is: the same search run directly on a board on
	// which the game was replayed move by move, never forked (every engine analysis runs on a fork of the
	// engine's board, so a fork that loses part of the state is the same on all engines compared below).
	if !fill && noise == 0 && hash == 0 && len(ref) > 0 && ref[len(ref)-1].Depth == depth {
		zt := board.NewZobristTable(seed0)
		if rb, err := bridge.NewBoard(zt, g.Start.FEN(g.StartHalf, g.StartFull)); err == nil {
			ok := true
			for _, m := range g.Moves {
				rm, found := bridge.FindRepoMove(rb.Position(), rb.Turn(), m)
				if !found || !rb.PushMove(rm) {
					ok = false
					break
				}
			}
			if ok {
				nodes, score, moves, err := solo.b.Root.Search(ctx, &search.Context{Alpha: eval.NegInfScore, Beta: eval.InfScore, TT: search.NoTranspositionTable{}}, rb, depth)
				if err == nil {
					if direct := recOf(search.PV{Depth: depth, Score: score, Moves: moves, Nodes: nodes}); direct != ref[len(ref)-1] {
						res.Violate("C18", "search-not-deterministic", steps, "wiring %s, game %q, depth %d: the engine's analysis (on a fork of its board) reports %+v; the same search run directly on a board on which the same game was replayed reports %+v: what a search returns does not depend on the game state and the depth only", w, g.FEN(), depth, ref[len(ref)-1], direct)
						return res
					}
					res.Probe("analysis-compared-with-direct-search-on-replayed-board")
				}
			}
		}
	}
	if fill && len(refFills) != len(ref) {
		panic("one fill fraction per iteration")
	}

	// Phase 2: 2..3 engines side by side
	n := t.Range(2, 3)
	var es []*engSim
	for i := 0; i < n; i++ {
		seed := int64(t.Choose(1<<16)) + 7
		if noise > 0 || fill || hash > 0 {
			// with noise on, the seed is part of the key: same seed, same stream. With a table in use the seed
			// decides which positions share a slot, hence which entries survive, hence the node count: that is
			// what a finite hash table is, not a dependence the property excludes ("no hash table carried
			// over" is what is compared with the table on: the same seed, a Reset before every analysis)
			seed = seed0
		}
		es = append(es, &engSim{name: fmt.Sprintf("engine%d(seed=%d)", i+1, seed), b: Build(ctx, k, w, opts, seed, 1)})
	}
	if noise == 0 && !fill && hash == 0 {
		res.Probe("hash-seeds-differ")
	}
	if predecessor {
		for _, e := range es {
			if !analyze(e, g0, predDepth) {
				return res
			}
		}
		if !runAll(es, true) {
			if len(res.Violations) > 0 {
				return res
			}
			return finishBudget()
		}
		res.Probe("predecessor-analysis")
	}
	for _, e := range es {
		if !analyze(e, g, depth) {
			return res
		}
	}
	// sometimes the first engine's analysis is halted at a tape-chosen moment by a client task: what it
	// has reported by then, and what Halt returns, must still be the solo run's iterations
	var haltPV *search.PV
	if t.Chance(1, 3) {
		e0 := es[0]
		go func() {
			k.Park("clientH.halt")
			pv, err := e0.b.E.Halt(ctx)
			if err == nil {
				haltPV = &pv
			}
			k.Park("clientH.done")
		}()
		k.Wait()
		k.Parked()
		res.Fault("halt@step")
	}
	if !runAll(es, true) {
		if len(res.Violations) > 0 {
			return res
		}
		return finishBudget()
	}
	// a halter that has not run (or not finished) yet does so now: the controller must never queue up
	// behind a client that sits inside an Engine call
	for n := 0; n < 200; n++ {
		k.Wait()
		var pend *Task
		for _, tk := range k.Parked() {
			if tk.Role == "clientH" && !(len(tk.Point) > 5 && tk.Point[len(tk.Point)-5:] == ".done") {
				pend = tk
			}
		}
		if pend == nil {
			break
		}
		if !k.Runnable(pend) {
			break
		}
		k.Release(pend, 0)
	}
	k.Wait()
	if k.LockHeld() {
		return finishBudget()
	}
	// differ reports a search result that is not the solo run's: C18's violation; in fill mode it only
	// means the fill fractions are not comparable (and C18's own check reports it)
	differ := func(kind, f string, a ...interface{}) {
		if fill {
			res.Inconclusive["search-results-differ"]++
			return
		}
		res.Violate("C18", kind, steps, f, a...)
	}
	fillOK := func(e *engSim, what string, depthOf func(i int) int) bool {
		if !fill {
			return true
		}
		for i, f := range e.fills {
			if f < 0 || f > 1 {
				res.Violate("C17", "fill-fraction-out-of-range", steps, "%s: %s reported a fill fraction of %v", e.name, what, f)
				return false
			}
			d := depthOf(i)
			if d < 1 || d > len(refFills) {
				continue
			}
			if f != refFills[d-1] {
				res.Violate("C17", "fill-count-not-from-empty-table", steps, "%s (wiring %s, hash %d MB, game %q): %s reports a fill fraction of %v after depth %d; a fresh engine with the same Zobrist seed reports %v for the same analysis. Engine.Reset gives the engine an empty table, so slots of earlier analyses are being counted (or slots of this one are not)", e.name, w, hash, g.FEN(), what, f, d, refFills[d-1])
				return false
			}
			res.Probe("fill-fraction-compared-with-fresh-engine")
		}
		return true
	}
	for _, e := range es {
		if !checkGame(e, "after") {
			return res
		}
		if haltPV != nil && e == es[0] {
			// halted: a prefix of the solo run's iterations, and Halt's own result is one of them
			hp := recOf(*haltPV)
			all := append(append([]pvRec{}, e.pvs...), hp)
			e.fills = append(e.fills, haltPV.Hash)
			for _, r := range all {
				if r.Depth < 1 || r.Depth > len(ref) {
					if r.Depth == 0 {
						continue
					}
					differ("search-not-deterministic", "%s: a halted analysis reported depth %d, beyond the limit %d", e.name, r.Depth, depth)
					return res
				}
				if r != ref[r.Depth-1] {
					differ("search-not-deterministic", "%s (wiring %s, noise %d, game %q): halted by a client, it reported for depth %d %+v; the solo run gave %+v", e.name, w, noise, g.FEN(), r.Depth, r, ref[r.Depth-1])
					return res
				}
			}
			// (Halt's own PV is the last completed iteration's, fill fraction included)
			if !fillOK(e, "a halted analysis after a Reset", func(i int) int { return all[i].Depth }) {
				return res
			}
			res.Probe("halted-analysis-compared-with-solo")
			continue
		}
		if len(e.pvs) != len(ref) {
			differ("search-not-deterministic", "%s reported %d iterations, the solo run of the same wiring, game and depth %d", e.name, len(e.pvs), len(ref))
			return res
		}
		for i := range ref {
			if e.pvs[i] != ref[i] {
				differ("search-not-deterministic", "%s (wiring %s, noise %d, game %q): iteration %d is %+v, the solo run gave %+v", e.name, w, noise, g.FEN(), i+1, e.pvs[i], ref[i])
				return res
			}
		}
		if !fillOK(e, "an analysis after an earlier one and a Reset", func(i int) int { return e.pvs[i].Depth }) {
			return res
		}
	}
	// the same analysis once more on the first engine (noise off: must repeat exactly)
	if noise == 0 {
		e := es[0]
		if !analyze(e, g, depth) {
			return res
		}
		if !runAll([]*engSim{e}, true) {
			if len(res.Violations) > 0 {
				return res
			}
			return finishBudget()
		}
		res.Probe("same-engine-searched-twice")
		for i := range ref {
			if i >= len(e.pvs) || e.pvs[i] != ref[i] {
				differ("search-not-repeatable", "%s: repeating the analysis gives %+v, the first time %+v", e.name, e.pvs, ref)
				return res
			}
		}
		if !fillOK(e, "the analysis repeated after a Reset", func(i int) int { return e.pvs[i].Depth }) {
			return res
		}
	}
	k.Drain()
	cancel()
	res.Steps = steps
	res.TraceHash = k.InterleavingHash()
	res.NonTrivial = len(ref) >= 1 && k.evCount >= 6
	res.Digest = fmt.Sprintf("%016x/%d", k.InterleavingHash(), len(ref))
	return res
}
