// Package tape is the single source of every choice a simulated run makes.
// One seed -> one tape -> one execution. In generation mode entries are drawn
// lazily from a SplitMix64 stream and recorded; in replay mode they are read
// back (missing entries read as 0, out-of-range entries are reduced mod n).
package tape

import (
	"fmt"
	"os"
)

// logFile, when VERIF_TAPE_LOG is set, receives every generated entry as it is
// drawn (unbuffered), so that the tape of a run that kills its process can be
// recovered by the parent. Writing it draws nothing and reads no clock.
var logFile = func() *os.File {
	if n := os.Getenv("VERIF_TAPE_LOG"); n != "" {
		f, _ := os.OpenFile(n, os.O_WRONLY|os.O_APPEND|os.O_CREATE, 0o644)
		return f
	}
	return nil
}()

type Tape struct {
	data   []uint32
	pos    int
	state  uint64
	replay bool
}

func mix(z uint64) uint64 {
	z = (z ^ (z >> 30)) * 0xbf58476d1ce4e5b9
	z = (z ^ (z >> 27)) * 0x94d049bb133111eb
	return z ^ (z >> 31)
}

// Derive returns a sub-seed for (seed, label, index); pure function.
func Derive(seed uint64, label string, i uint64) uint64 {
	h := seed*0x9e3779b97f4a7c15 + 0x632be59bd9b4e019
	for _, c := range []byte(label) {
		h = mix(h ^ uint64(c))
	}
	return mix(h ^ mix(i+0x9e3779b97f4a7c15))
}

func New(seed uint64) *Tape { return &Tape{state: seed} }

func Replay(data []uint32) *Tape {
	return &Tape{data: append([]uint32(nil), data...), replay: true}
}

func (t *Tape) next() uint64 {
	t.state += 0x9e3779b97f4a7c15
	return mix(t.state)
}

// Choose returns a value in [0,n). n<=1 returns 0 and still consumes an entry,
// so that the tape layout does not depend on run-time cardinalities being >1.
func (t *Tape) Choose(n int) int {
	var v uint32
	if t.replay {
		if t.pos < len(t.data) {
			v = t.data[t.pos]
		}
		t.pos++
		if n <= 1 {
			return 0
		}
		return int(v % uint32(n))
	}
	if n <= 1 {
		v = 0
	} else {
		v = uint32(t.next() % uint64(n))
	}
	t.data = append(t.data, v)
	t.pos++
	if logFile != nil {
		fmt.Fprintf(logFile, "%d\n", v)
	}
	return int(v)
}

// Range returns a value in [lo,hi].
func (t *Tape) Range(lo, hi int) int {
	if hi <= lo {
		t.Choose(1)
		return lo
	}
	return lo + t.Choose(hi-lo+1)
}

// Chance is true with probability num/den. Value 0 (what a shrunk tape holds) is false.
func (t *Tape) Chance(num, den int) bool {
	return t.Choose(den) >= den-num
}

// Weighted picks an index with the given weights (weights <=0 never picked unless all are).
func (t *Tape) Weighted(w []int) int {
	tot := 0
	for _, x := range w {
		if x > 0 {
			tot += x
		}
	}
	if tot == 0 {
		t.Choose(1)
		return 0
	}
	v := t.Choose(tot)
	for i, x := range w {
		if x <= 0 {
			continue
		}
		if v < x {
			return i
		}
		v -= x
	}
	return len(w) - 1
}

func (t *Tape) Data() []uint32 { return append([]uint32(nil), t.data[:min(t.pos, len(t.data))]...) }
func (t *Tape) Pos() int       { return t.pos }
func (t *Tape) IsReplay() bool { return t.replay }
