package tape

import "time"

// Shrink minimises data while fails(data) stays true. Delta debugging over the
// tape: drop chunks, zero entries, lower entries. Bounded by budget and maxRuns.
func Shrink(data []uint32, fails func([]uint32) bool, budget time.Duration, maxRuns int) ([]uint32, int) {
	start := time.Now()
	runs := 0
	try := func(c []uint32) bool {
		if runs >= maxRuns || time.Since(start) > budget {
			return false
		}
		runs++
		return fails(c)
	}
	cur := append([]uint32(nil), data...)
	// strip trailing entries first (cheap, large win)
	for n := len(cur) / 2; n >= 1; n /= 2 {
		for len(cur) >= n {
			c := cur[:len(cur)-n]
			if try(c) {
				cur = append([]uint32(nil), c...)
			} else {
				break
			}
		}
	}
	improved := true
	for improved && runs < maxRuns && time.Since(start) <= budget {
		improved = false
		// delete chunks
		for n := len(cur) / 2; n >= 1; n /= 2 {
			for i := 0; i+n <= len(cur); {
				c := append(append([]uint32(nil), cur[:i]...), cur[i+n:]...)
				if try(c) {
					cur = c
					improved = true
				} else {
					i += n
				}
			}
		}
		// zero, then lower entries
		for i := 0; i < len(cur); i++ {
			if cur[i] == 0 {
				continue
			}
			c := append([]uint32(nil), cur...)
			c[i] = 0
			if try(c) {
				cur = c
				improved = true
				continue
			}
			for _, v := range []uint32{cur[i] / 2, cur[i] - 1} {
				if v >= cur[i] {
					continue
				}
				c := append([]uint32(nil), cur...)
				c[i] = v
				if try(c) {
					cur = c
					improved = true
				}
			}
		}
	}
	return cur, runs
}
