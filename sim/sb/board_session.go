// Package sb is simulator S-B: sequential operations on long-lived boards and
// searches, checked operation by operation against the reference models.
package sb

import (
	"fmt"
	"strings"

	"github.com/herohde/morlock/pkg/board"
	"github.com/herohde/morlock/pkg/board/fen"
	"verif/sim/bridge"
	"verif/sim/core"
	"verif/sim/rules"
	"verif/sim/tape"
)

type live struct {
	id          int
	b           *board.Board
	g           *rules.Game
	cur         rules.Pos
	twin        *board.Board // replay twin: fresh board, same list pushed, never popped or forked
	adjudicated bool
	lastOp      string
}

type boardSession struct {
	t      *tape.Tape
	res    *core.RunResult
	props  map[string]bool
	zt     *board.ZobristTable
	start  string
	boards []*live
	shared map[[2]int]int // pairwise length of the shared history prefix
	nextID int
	step   int

	keyToHash map[rules.Pos]board.ZobristHash
	hashToKey map[board.ZobristHash]rules.Pos

	pops, forks, pushes int

	// observation discipline of this session: a getter that is asked after every single operation can
	// never show a stale memo (asking refreshes it). In a "lazy" session each group of getters is asked
	// only now and then, and the moved-pieces query with one limit only.
	lazyObs   bool
	lazyLimit int
}

// BoardSession runs one S-B board session from the tape and evaluates the oracles of the given properties.
func BoardSession(t *tape.Tape, props []string) *core.RunResult {
	s := &boardSession{t: t, res: core.NewResult(), props: map[string]bool{}, shared: map[[2]int]int{},
		keyToHash: map[rules.Pos]board.ZobristHash{}, hashToKey: map[board.ZobristHash]rules.Pos{}}
	for _, p := range props {
		s.props[p] = true
	}
	s.run()
	s.res.Steps = s.step
	s.res.TraceHash = core.HashStrings(s.res.Trace)
	s.res.NonTrivial = s.pushes >= 5 && (s.pops+s.forks) >= 1
	return s.res
}

func (s *boardSession) want(p string) bool { return s.props[p] }

func (s *boardSession) run() {
	t := s.t
	ztSeed := int64(t.Choose(1 << 20))
	si := t.Choose(len(Starts))
	nOps := t.Range(4, 40)
	if t.Chance(1, 4) {
		nOps = t.Range(40, 320)
	}
	// swarm weights for this run
	wPush := 6 + t.Choose(10)
	wIllegal := t.Choose(3)
	wPop := t.Choose(5)
	wFork := t.Choose(3)
	wDrop := t.Choose(2)
	wAdj := 1
	pReverse := t.Choose(10) // out of 10: take back own last move by playing it backwards (repetitions)
	pSpecial := t.Choose(8)  // out of 10: prefer captures / castling / promotions / double steps
	// "quiet walk": after a short prefix of special moves (en passant, castling, captures), a long run of
	// quiet moves to positions not seen before, so that the fifty-move clock reaches 100 with no
	// repetition in the way: the only way to see a clock that is off by one after a special move.
	quietAfter := -1
	if t.Chance(1, 6) {
		quietAfter = t.Choose(8)
		nOps = t.Range(110, 320)
		wPop, wFork, wDrop, wIllegal = 0, 0, 0, 0
		pSpecial, pReverse = 10, 0
		if t.Chance(2, 3) {
			// start where an en-passant capture or castling is at hand
			var idx []int
			for i, st := range Starts {
				if st.Tag == "ep" || st.Tag == "castle" {
					idx = append(idx, i)
				}
			}
			si = idx[t.Choose(len(idx))]
		}
		s.res.Probe("quiet-walk")
	}

	s.lazyObs = t.Chance(1, 3)
	s.lazyLimit = []int{1, 2, 3, 10, 1000}[t.Choose(5)]
	if s.lazyObs {
		s.res.Probe("lazy-observer")
	}
	s.zt = board.NewZobristTable(ztSeed)
	s.start = Starts[si].FEN
	if quietAfter < 0 && t.Chance(1, 5) {
		s.start = Scatter(t.Choose)
		s.res.Probe("scattered-start-position")
	}
	s.res.Tracef("zobrist=%d start=%q ops=%d", ztSeed, s.start, nOps)

	g, err := rules.NewGame(s.start)
	if err != nil {
		panic(err)
	}
	b, err := bridge.NewBoard(s.zt, s.start)
	if err != nil {
		if s.want("C14") {
			s.res.Violate("C14", "decode-rejects-canonical", 0, "fen.Decode(%q): %v", s.start, err)
		} else {
			s.res.Discarded = "start position rejected by fen.Decode"
		}
		return
	}
	root := &live{id: 0, b: b, g: g, cur: g.Start, lastOp: "new"}
	s.nextID = 1
	s.boards = []*live{root}
	if !s.checkAll(root, "new", nil, board.Position{}) {
		return
	}

	for i := 0; i < nOps; i++ {
		s.step++
		l := s.boards[t.Choose(len(s.boards))]
		legal := l.cur.LegalMoves()
		floor := s.floor(l)
		w := []int{wPush, wIllegal, wPop, wFork, wDrop, wAdj}
		if len(legal) == 0 || l.adjudicated {
			w[0], w[1] = 0, 0
		} else {
			w[5] = 0
		}
		if len(l.g.Moves) <= floor {
			w[2] = 0
		}
		if len(s.boards) >= 4 {
			w[3] = 0
		}
		if len(s.boards) < 2 {
			w[4] = 0
		}
		if l.adjudicated {
			w[5] = 0
		}
		op := t.Weighted(w)
		if w[op] <= 0 {
			continue
		}
		var before *board.Position
		var beforeCopy board.Position
		before = l.b.Position()
		beforeCopy = *before
		switch op {
		case 0: // push(legal)
			m := s.pickMove(l, legal, pReverse, pSpecial)
			if quietAfter >= 0 && i >= quietAfter {
				m = s.pickQuiet(l, legal)
			}
			rm, ok := bridge.FindRepoMove(l.b.Position(), l.b.Turn(), m)
			if !ok {
				s.res.Discarded = fmt.Sprintf("generator does not emit legal move %s in %s", m.UCI(), l.cur.FEN4())
				return
			}
			s.res.Tracef("b%d push %s", l.id, m.UCI())
			in := l.cur.Describe(m)
			s.probeMove(l, in, m)
			if s.want("C02") {
				// the move arriving as text (as Engine.Move and the UCI driver take it): parsed, then matched
				// against the generated moves with Move.Equals; it must be this move and no other
				if cand, err := board.ParseMove(m.UCI()); err == nil {
					for _, x := range l.b.Position().PseudoLegalMoves(l.b.Turn()) {
						if !cand.Equals(x) {
							continue
						}
						if x != rm {
							s.res.Violate("C02", "text-move-played-as-another", s.step, "in %q the move text %q, parsed and matched against the generated moves with Move.Equals, is played as %v; the rules prescribe %v", l.cur.FEN4(), m.UCI(), x, rm)
							return
						}
						break
					}
				}
			}
			if !l.b.PushMove(rm) {
				if s.want("C02") {
					s.res.Violate("C02", "legal-move-refused", s.step, "in %q the legal move %s is refused (own king in check after it, says the position; the rules say it is not): no successor at all", l.cur.FEN4(), m.UCI())
					return
				}
				s.res.Discarded = fmt.Sprintf("PushMove rejects legal move %s in %s", m.UCI(), l.cur.FEN4())
				return
			}
			l.g.Moves = append(l.g.Moves, m)
			l.cur = l.cur.Make(m)
			if l.twin != nil {
				if tm, ok := bridge.FindRepoMove(l.twin.Position(), l.twin.Turn(), m); !ok || !l.twin.PushMove(tm) {
					l.twin = nil
				}
			}
			s.pushes++
			l.lastOp = "push"
		case 1: // push(illegal): generator-emitted, rules forbid
			var cands []board.Move
			for _, rm := range l.b.Position().PseudoLegalMoves(l.b.Turn()) {
				if !l.cur.IsLegal(bridge.ModelMove(rm)) {
					cands = append(cands, rm)
				}
			}
			if len(cands) == 0 {
				continue
			}
			rm := cands[t.Choose(len(cands))]
			s.res.Tracef("b%d push-illegal %s", l.id, bridge.ModelMove(rm).UCI())
			s.res.Fault("reject")
			if l.b.PushMove(rm) {
				if mm := bridge.ModelMove(rm); s.want("C02") && leavesKingAttacked(&l.cur, mm) {
					s.res.Violate("C02", "attack-view-disagree", s.step, "in %q the move %s is played although it leaves the mover's king attacked: the check query disagrees with the placement", l.cur.FEN4(), mm.UCI())
					return
				}
				s.res.Discarded = fmt.Sprintf("PushMove accepts illegal move %s in %s", bridge.ModelMove(rm).UCI(), l.cur.FEN4())
				return
			}
			l.lastOp = "reject"
		case 2: // pop
			s.res.Tracef("b%d pop", l.id)
			s.res.Fault("take-back")
			if len(l.g.Moves) >= 1 {
				pp := rules.Game{Start: l.g.Start, Moves: l.g.Moves[:len(l.g.Moves)-1]}
				ppos := pp.Pos()
				if ppos.Describe(l.g.Moves[len(l.g.Moves)-1]).Castle {
					s.res.Probe("pop-castling")
				}
			}
			_, ok := l.b.PopMove()
			if !ok {
				if s.want("C08") {
					s.res.Violate("C08", "pop-refused", s.step, "PopMove refused with %d moves on the board", len(l.g.Moves))
				}
				return
			}
			l.g.Moves = l.g.Moves[:len(l.g.Moves)-1]
			l.cur = l.g.Pos()
			l.twin = nil
			l.adjudicated = false
			s.pops++
			if len(l.g.Moves) == 0 {
				s.res.Probe("pop-to-root")
			}
			l.lastOp = "pop"
		case 3: // fork
			nl := &live{id: s.nextID, b: l.b.Fork(), g: l.g.Clone(), cur: l.cur, adjudicated: l.adjudicated, lastOp: "fork"}
			s.nextID++
			s.res.Tracef("fork b%d -> b%d", l.id, nl.id)
			s.res.Fault("fork")
			k := len(l.g.Moves)
			for _, o := range s.boards {
				if o == l {
					continue
				}
				s.setShared(nl.id, o.id, min(k, s.getShared(l.id, o.id)))
			}
			s.setShared(nl.id, l.id, k)
			s.boards = append(s.boards, nl)
			s.forks++
			if l.id != 0 {
				s.res.Probe("fork-of-fork")
			}
			l = nl
		case 4: // drop a board
			s.res.Tracef("drop b%d", l.id)
			for i, o := range s.boards {
				if o == l {
					s.boards = append(s.boards[:i], s.boards[i+1:]...)
					break
				}
			}
			l = s.boards[0]
			l.lastOp = "other"
		case 5: // adjudicate (no legal move)
			s.res.Tracef("b%d adjudicate", l.id)
			r := l.b.AdjudicateNoLegalMoves()
			l.adjudicated = true
			l.lastOp = "adjudicate"
			if s.want("C05") {
				inCheck := l.cur.InCheck(l.cur.WhiteT)
				s.res.Probe(map[bool]string{true: "adjudicate-mate", false: "adjudicate-stalemate"}[inCheck])
				wantR := board.Result{Outcome: board.Draw, Reason: board.Stalemate}
				if inCheck {
					wantR = board.Result{Outcome: board.Loss(bridge.Color(l.cur.WhiteT)), Reason: board.Checkmate}
				}
				if r != wantR || l.b.Result() != wantR {
					s.res.Violate("C05", "adjudication-wrong", s.step, "no legal move in %s, in check=%v: adjudicated %v (board says %v), want %v", l.cur.FEN4(), inCheck, r, l.b.Result(), wantR)
					return
				}
			}
		}
		if !s.checkAll(l, l.lastOp, before, beforeCopy) {
			return
		}
	}
}

// leavesKingAttacked: m obeys piece movement in p but leaves the mover's own king attacked.
func leavesKingAttacked(p *rules.Pos, m rules.Move) bool {
	for _, x := range p.PseudoOnly() {
		if x == m {
			return true
		}
	}
	return false
}

func (s *boardSession) key(a, b int) [2]int {
	if a > b {
		a, b = b, a
	}
	return [2]int{a, b}
}
func (s *boardSession) getShared(a, b int) int {
	if v, ok := s.shared[s.key(a, b)]; ok {
		return v
	}
	return 0
}
func (s *boardSession) setShared(a, b, v int) { s.shared[s.key(a, b)] = v }

// floor is the length below which l must not be popped while its relatives live (Fork's documented contract).
func (s *boardSession) floor(l *live) int {
	f := 0
	for _, o := range s.boards {
		if o != l {
			f = max(f, s.getShared(l.id, o.id))
		}
	}
	return f
}

func (s *boardSession) pickMove(l *live, legal []rules.Move, pReverse, pSpecial int) rules.Move {
	t := s.t
	if n := len(l.g.Moves); n >= 2 && t.Choose(10) < pReverse {
		last := l.g.Moves[n-2]
		rev := rules.Move{From: last.To, To: last.From}
		for _, m := range legal {
			if m == rev {
				return m
			}
		}
	}
	if t.Choose(10) < pSpecial {
		var sp []rules.Move
		for _, m := range legal {
			in := l.cur.Describe(m)
			if in.Capture != rules.Empty || in.Castle || in.Promotion || in.DoubleStep || in.Piece == rules.King || in.Piece == rules.Rook {
				sp = append(sp, m)
			}
		}
		if len(sp) > 0 {
			return sp[t.Choose(len(sp))]
		}
	}
	return legal[t.Choose(len(legal))]
}

// pickQuiet prefers a quiet move (no capture, no pawn move) to a position this game has not seen.
func (s *boardSession) pickQuiet(l *live, legal []rules.Move) rules.Move {
	seen := map[rules.Pos]bool{}
	for _, p := range l.g.Line() {
		seen[p] = true
	}
	var fresh, quiet []rules.Move
	for _, m := range legal {
		in := l.cur.Describe(m)
		if in.Capture != rules.Empty || in.Piece == rules.Pawn {
			continue
		}
		quiet = append(quiet, m)
		if !seen[l.cur.Make(m)] {
			fresh = append(fresh, m)
		}
	}
	switch {
	case len(fresh) > 0:
		return fresh[s.t.Choose(len(fresh))]
	case len(quiet) > 0:
		return quiet[s.t.Choose(len(quiet))]
	}
	return legal[s.t.Choose(len(legal))]
}

func (s *boardSession) probeMove(l *live, in rules.Info, m rules.Move) {
	switch {
	case in.Castle:
		s.res.Probe("mv-castle")
		if l.g.Half() > 0 {
			s.res.Probe("castle-inside-no-progress")
		}
	case in.EnPassant:
		s.res.Probe("mv-enpassant")
	case in.Promotion:
		s.res.Probe("mv-promo-" + string(".pnbrqk"[m.Promo]))
	case in.DoubleStep:
		s.res.Probe("mv-doublestep")
	case in.Capture != rules.Empty:
		s.res.Probe("mv-capture")
	}
	if in.Capture == rules.Rook && (m.To == 0 || m.To == 7 || m.To == 56 || m.To == 63) {
		s.res.Probe("rook-captured-at-home")
	}
	if in.Piece == rules.King && (l.cur.Castle[0] || l.cur.Castle[1] || l.cur.Castle[2] || l.cur.Castle[3]) {
		s.res.Probe("king-move-with-rights")
	}
	if l.cur.EP >= 0 {
		s.res.Probe("ep-present-before")
	}
}

// checkAll evaluates every requested oracle after an operation on l. Returns false to stop the run.
func (s *boardSession) checkAll(l *live, op string, before *board.Position, beforeCopy board.Position) bool {
	nv := len(s.res.Violations)
	if s.want("C02") {
		s.checkC02(l, op, before, beforeCopy)
	}
	if s.want("C05") && op == "push" {
		s.checkC05(l)
	}
	if s.want("C07") {
		for _, o := range s.boards {
			s.checkC07(o)
		}
	}
	if s.want("C08") {
		for _, o := range s.boards {
			if !s.checkC08(o, o == l, op) {
				return false
			}
		}
	}
	if s.want("C14") {
		s.checkC14(l)
	}
	return len(s.res.Violations) == nv && s.res.Discarded == ""
}

// ---------------- C02 ----------------

func (s *boardSession) checkC02(l *live, op string, before *board.Position, beforeCopy board.Position) {
	// (4) the position moved from is untouched (also after a rejected push)
	if before != nil && *before != beforeCopy {
		s.res.Violate("C02", "source-position-mutated", s.step, "after %s the position moved from changed: %v -> %v", op, &beforeCopy, before)
		return
	}
	if op == "reject" && l.b.Position() != before {
		s.res.Violate("C02", "rejected-push-changed-position", s.step, "rejected push replaced the board's position")
		return
	}
	// (1) every live board's Square/Castling/EnPassant view equals the model's successor
	for _, o := range s.boards {
		got := bridge.PosFromRepo(o.b.Position(), o.b.Turn())
		if got != o.cur {
			s.res.Violate("C02", "successor-mismatch", s.step, "b%d after %s: board has %q, rules prescribe %q", o.id, op, got.FEN4(), o.cur.FEN4())
			return
		}
	}
	pos := l.b.Position()
	turn := l.b.Turn()
	// (2) all views agree with the Square() view
	var all board.Bitboard
	var col [2]board.Bitboard
	var pcs [2][board.NumPieces]board.Bitboard
	var placements []board.Placement
	for sq := board.ZeroSquare; sq < board.NumSquares; sq++ {
		c, p, ok := pos.Square(sq)
		if ok == pos.IsEmpty(sq) {
			s.res.Violate("C02", "view-disagree", s.step, "IsEmpty(%v)=%v but Square says occupied=%v in %q", sq, pos.IsEmpty(sq), ok, l.cur.FEN4())
			return
		}
		if !ok {
			continue
		}
		all |= board.BitMask(sq)
		col[c] |= board.BitMask(sq)
		pcs[c][p] |= board.BitMask(sq)
		placements = append(placements, board.Placement{Square: sq, Color: c, Piece: p})
	}
	if pos.All() != all {
		s.res.Violate("C02", "view-disagree", s.step, "All()=%v, squares give %v in %q", pos.All(), all, l.cur.FEN4())
		return
	}
	for c := board.ZeroColor; c < board.NumColors; c++ {
		if pos.Color(c) != col[c] {
			s.res.Violate("C02", "view-disagree", s.step, "Color(%v)=%v, squares give %v in %q", c, pos.Color(c), col[c], l.cur.FEN4())
			return
		}
		for p := board.ZeroPiece; p < board.NumPieces; p++ {
			if pos.Piece(c, p) != pcs[c][p] {
				s.res.Violate("C02", "view-disagree", s.step, "Piece(%v,%v)=%v, squares give %v in %q", c, p, pos.Piece(c, p), pcs[c][p], l.cur.FEN4())
				return
			}
			sqs := pos.PieceSquares(c, p)
			var u board.Bitboard
			for _, q := range sqs {
				u |= board.BitMask(q)
			}
			if u != pcs[c][p] || len(sqs) != pcs[c][p].PopCount() {
				s.res.Violate("C02", "view-disagree", s.step, "PieceSquares(%v,%v)=%v, squares give %v", c, p, sqs, pcs[c][p])
				return
			}
		}
		if k := l.cur.KingSq(c == board.White); k >= 0 && pos.KingSquare(c) != bridge.Sq(k) {
			s.res.Violate("C02", "view-disagree", s.step, "KingSquare(%v)=%v, rules say %s", c, pos.KingSquare(c), rules.SqName(k))
			return
		}
	}
	ep, _ := pos.EnPassant()
	rebuilt, err := board.NewPosition(placements, pos.Castling(), ep)
	if err != nil {
		s.res.Violate("C02", "view-disagree", s.step, "cannot rebuild position from its own Square view: %v", err)
		return
	}
	if pos.Rotated() != board.NewRotatedBitboard(pos.All()) {
		s.res.Violate("C02", "rotated-drift", s.step, "incrementally kept rotated occupancy differs from one rebuilt from All() in %q", l.cur.FEN4())
		return
	}
	if *rebuilt != *pos {
		s.res.Violate("C02", "view-disagree", s.step, "position kept incrementally differs from one rebuilt from scratch in %q", l.cur.FEN4())
		return
	}
	for c := board.ZeroColor; c < board.NumColors; c++ {
		for sq := board.ZeroSquare; sq < board.NumSquares; sq++ {
			a := pos.IsAttacked(c, sq)
			if a != rebuilt.IsAttacked(c, sq) {
				s.res.Violate("C02", "attack-view-disagree", s.step, "IsAttacked(%v,%v) differs between incremental and rebuilt position in %q", c, sq, l.cur.FEN4())
				return
			}
			// attack queries against the rules' definition on the successor (the derived view must agree with the placement view)
			if a != l.cur.Attacked(bridge.ModelSq(sq), c != board.White) {
				s.res.Violate("C02", "attack-view-disagree", s.step, "IsAttacked(%v,%v)=%v disagrees with the placement in %q", c, sq, a, l.cur.FEN4())
				return
			}
		}
	}
	// the check query is one more attack view
	for c := board.ZeroColor; c < board.NumColors; c++ {
		if got, want := pos.IsChecked(c), l.cur.InCheck(c == board.White); got != want {
			s.res.Violate("C02", "attack-view-disagree", s.step, "IsChecked(%v)=%v, by the placement the king is attacked=%v (IsAttacked on its square says %v) in %q", c, got, want, pos.IsAttacked(c, pos.KingSquare(c)), l.cur.FEN4())
			return
		}
	}
	// (3) FEN of the successor
	if f := fen.Encode(pos, turn, 0, 1); !strings.HasPrefix(f, l.cur.FEN4()+" ") {
		s.res.Violate("C02", "fen-of-successor", s.step, "fen.Encode gives %q, rules prescribe %q", f, l.cur.FEN4())
	}
}

// ---------------- C05 ----------------

func (s *boardSession) checkC05(l *live) {
	ev := l.g.Events()
	r := l.b.Result()
	crossFork := l.id != 0
	if ev.Rep3 {
		s.res.Probe("draw-rep3")
		if crossFork {
			s.res.Probe("draw-rep3-on-fork")
		}
		line := l.g.Line()
		if line[0] == l.cur {
			s.res.Probe("rep-includes-start-node")
		}
	}
	if ev.Rep5 {
		s.res.Probe("draw-rep5")
	}
	if ev.Fifty {
		s.res.Probe("draw-fifty")
		if l.g.StartHalf > 0 {
			s.res.Probe("fifty-clock-carried-from-fen")
		}
	}
	if ev.Material {
		s.res.Probe("draw-material")
	}
	desc := func() string {
		return fmt.Sprintf("after %s from %q (occurrences=%d, clock=%d, events=%+v)", movesText(l.g.Moves), l.g.Start.FEN(l.g.StartHalf, l.g.StartFull), l.g.Occurrences(), l.g.Half(), ev)
	}
	if ev.Any() {
		if r.Outcome != board.Draw {
			kind := "draw-missed"
			switch {
			case ev.Material:
				kind = "draw-missed-material"
			case ev.Fifty:
				kind = "draw-missed-fifty"
			case ev.Rep3:
				kind = "draw-missed-repetition"
			}
			s.res.Violate("C05", kind, s.step, "b%d reports %v %s", l.id, r, desc())
			return
		}
		names := func(e rules.DrawEvents) bool {
			return (r.Reason == board.Repetition3 && e.Rep3) || (r.Reason == board.Repetition5 && e.Rep5) ||
				(r.Reason == board.NoProgress && e.Fifty) || (r.Reason == board.InsufficientMaterial && e.Material)
		}
		// The reason must name an event that holds here, or one that held earlier in this game (a
		// result, once drawn, may be carried along); a repetition must be named five-fold from the fifth occurrence.
		if r.Reason == board.Repetition3 && ev.Rep5 {
			s.res.Violate("C05", "draw-reason-wrong", s.step, "b%d reports %v at the fifth occurrence %s", l.id, r, desc())
			return
		}
		if !names(ev) && !names(l.g.EverEvents()) {
			s.res.Violate("C05", "draw-reason-wrong", s.step, "b%d reports %v %s", l.id, r, desc())
		}
		return
	}
	if r.Outcome == board.Draw && !l.g.EverDrawn() {
		s.res.Violate("C05", "spurious-draw", s.step, "b%d reports %v though no draw event ever happened %s", l.id, r, desc())
	}
}

func movesText(ms []rules.Move) string {
	var sb strings.Builder
	for i, m := range ms {
		if i > 0 {
			sb.WriteByte(' ')
		}
		sb.WriteString(m.UCI())
	}
	if len(ms) == 0 {
		return "(no moves)"
	}
	return sb.String()
}

// ---------------- C07 ----------------

func (s *boardSession) checkC07(o *live) {
	b := o.b
	scratch := s.zt.Hash(b.Position(), b.Turn())
	if b.Hash() != scratch {
		castle := "no-rights"
		if o.cur.Castle != [4]bool{} {
			castle = "with-rights"
		}
		s.res.Violate("C07", "hash-mismatch", s.step, "b%d after %s (%s) [%s]: incremental %x, scratch %x", o.id, o.lastOp, movesText(o.g.Moves), castle, uint64(b.Hash()), uint64(scratch))
		return
	}
	if bridge.PosFromRepo(b.Position(), b.Turn()) != o.cur {
		return // C02's business
	}
	if h, ok := s.keyToHash[o.cur]; ok && h != scratch {
		s.res.Violate("C07", "hash-not-a-function-of-position", s.step, "%q hashed to %x and %x", o.cur.FEN4(), uint64(h), uint64(scratch))
		return
	}
	if k, ok := s.hashToKey[scratch]; ok && k != o.cur {
		s.res.Violate("C07", "distinct-positions-collide", s.step, "%q and %q both hash to %x", k.FEN4(), o.cur.FEN4(), uint64(scratch))
		return
	}
	s.keyToHash[o.cur] = scratch
	s.hashToKey[scratch] = o.cur
}

// ---------------- C08 ----------------

func (s *boardSession) rebuildTwin(o *live) bool {
	tb, err := bridge.NewBoard(s.zt, s.start)
	if err != nil {
		s.res.Discarded = "twin: start rejected"
		return false
	}
	p := o.g.Start
	for _, m := range o.g.Moves {
		rm, ok := bridge.FindRepoMove(tb.Position(), tb.Turn(), m)
		if !ok || !tb.PushMove(rm) {
			s.res.Discarded = "twin: replay of the model line refused"
			return false
		}
		p = p.Make(m)
	}
	o.twin = tb
	return true
}

// twinTriggersHere tells whether a board that replays the line (no take-back, no fork) reports the
// draw *at this node* rather than carrying it over from an earlier one: replay all but the last move,
// clear the carried result through the public setter, push the last move.
func (s *boardSession) twinTriggersHere(o *live) bool {
	n := len(o.g.Moves)
	if n == 0 {
		return false
	}
	tb, err := bridge.NewBoard(s.zt, s.start)
	if err != nil {
		return false
	}
	for i, m := range o.g.Moves {
		if i == n-1 {
			tb.Adjudicate(board.Result{})
		}
		rm, ok := bridge.FindRepoMove(tb.Position(), tb.Turn(), m)
		if !ok || !tb.PushMove(rm) {
			return false
		}
	}
	return tb.Result().Outcome == board.Draw
}

func stripResult(s string) string {
	if i := strings.Index(s, ", result="); i >= 0 {
		return s[:i]
	}
	return s
}

func (s *boardSession) checkC08(o *live, operated bool, op string) bool {
	if o.twin == nil && !s.rebuildTwin(o) {
		return false
	}
	x, t := o.b, o.twin
	bad := func(what string, a, b any) bool {
		s.res.Violate("C08", "history-op-not-exact", s.step, "b%d (%s; last op on it: %s; this step: %s on b-operated=%v) %s = %v, a board that replayed the same line without take-back or fork reports %v",
			o.id, movesText(o.g.Moves), o.lastOp, op, operated, what, a, b)
		return false
	}
	ask := func() bool { return !s.lazyObs || s.t.Chance(1, 2) }
	if ask() {
		if *x.Position() != *t.Position() {
			return bad("Position", x.Position(), t.Position())
		}
		if x.Turn() != t.Turn() {
			return bad("Turn", x.Turn(), t.Turn())
		}
		if x.Hash() != t.Hash() {
			return bad("Hash", x.Hash(), t.Hash())
		}
	}
	if ask() {
		if x.NoProgress() != t.NoProgress() {
			return bad("NoProgress", x.NoProgress(), t.NoProgress())
		}
		if x.Ply() != t.Ply() {
			return bad("Ply", x.Ply(), t.Ply())
		}
		if x.FullMoves() != t.FullMoves() {
			return bad("FullMoves", x.FullMoves(), t.FullMoves())
		}
	}
	if ask() {
		for c := board.ZeroColor; c < board.NumColors; c++ {
			if x.HasCastled(c) != t.HasCastled(c) {
				return bad(fmt.Sprintf("HasCastled(%v)", c), x.HasCastled(c), t.HasCastled(c))
			}
		}
	}
	if ask() {
		xm, xok := x.LastMove()
		tm, tok := t.LastMove()
		if xm != tm || xok != tok {
			return bad("LastMove", xm, tm)
		}
		xm, xok = x.SecondToLastMove()
		tm, tok = t.SecondToLastMove()
		if xm != tm || xok != tok {
			return bad("SecondToLastMove", xm, tm)
		}
	}
	if ask() {
		limits := []int{1, 2, 1000}
		if s.lazyObs {
			limits = []int{s.lazyLimit}
		}
		for _, k := range limits {
			if x.HasMoved(k) != t.HasMoved(k) {
				return bad(fmt.Sprintf("HasMoved(%d)", k), x.HasMoved(k), t.HasMoved(k))
			}
		}
	}
	if ask() {
		if a, b := stripResult(x.String()), stripResult(t.String()); a != b {
			return bad("String()", a, b)
		}
	}
	if o.adjudicated {
		return true
	}
	xd, td := x.Result().Outcome == board.Draw, t.Result().Outcome == board.Draw
	if operated && op == "pop" && xd {
		s.res.Violate("C08", "drawn-after-take-back", s.step, "b%d reports %v right after a take-back (%s)", o.id, x.Result(), movesText(o.g.Moves))
		return false
	}
	if xd && !td {
		s.res.Violate("C08", "draw-only-after-history-ops", s.step, "b%d (%s) reports %v, a board that replayed the same line without take-back or fork reports %v", o.id, movesText(o.g.Moves), x.Result(), t.Result())
		return false
	}
	if o.lastOp == "push" && td && !xd && o.g.Events().Any() && s.twinTriggersHere(o) {
		s.res.Violate("C08", "draw-lost-by-history-ops", s.step, "b%d (%s) reports %v at a node where a draw event holds; a board that replayed the same line without take-back or fork reports %v", o.id, movesText(o.g.Moves), x.Result(), t.Result())
		return false
	}
	if o.lastOp == "push" && o.id != 0 && td && xd && o.g.Events().Rep3 {
		s.res.Probe("repetition-detected-on-fork")
	}
	return true
}

// ---------------- C14 (codec part) ----------------

func (s *boardSession) checkC14(l *live) {
	half, full := l.g.Half(), l.g.Full()
	if s.t.Chance(1, 3) {
		half, full = s.t.Choose(151), 1+s.t.Choose(300)
	}
	f := l.cur.FEN(half, full)
	pos, turn, np, fm, err := fen.Decode(f)
	if err != nil || pos == nil {
		s.res.Violate("C14", "decode-rejects-canonical", s.step, "fen.Decode(%q): %v", f, err)
		return
	}
	if got := bridge.PosFromRepo(pos, turn); got != l.cur || np != half || fm != full {
		s.res.Violate("C14", "decode-wrong", s.step, "fen.Decode(%q) gives %q clocks %d %d", f, got.FEN4(), np, fm)
		return
	}
	if g := fen.Encode(pos, turn, np, fm); g != f {
		s.res.Violate("C14", "reencode-differs", s.step, "Encode(Decode(%q)) = %q", f, g)
		return
	}
	// Encode then Decode of the board's own position: identical position (by value), side and clocks.
	bp := l.b.Position()
	e := fen.Encode(bp, l.b.Turn(), half, full)
	p2, t2, np2, fm2, err := fen.Decode(e)
	if err != nil || p2 == nil {
		s.res.Violate("C14", "decode-rejects-own-encoding", s.step, "fen.Decode(fen.Encode(..)=%q): %v", e, err)
		return
	}
	if *p2 != *bp || t2 != l.b.Turn() || np2 != half || fm2 != full {
		s.res.Violate("C14", "roundtrip-differs", s.step, "Decode(Encode(pos,%v,%d,%d)=%q) gives %v %v %d %d", l.b.Turn(), half, full, e, p2, t2, np2, fm2)
	}
}
