package sb

import (
	"context"
	"fmt"

	"github.com/herohde/morlock/pkg/engine"
	"github.com/herohde/morlock/pkg/eval"
	"github.com/herohde/morlock/pkg/search"
	"github.com/herohde/morlock/pkg/search/searchctl"
	"github.com/seekerror/stdlib/pkg/lang"
	"verif/sim/core"
	"verif/sim/rules"
	"verif/sim/tape"
)

// EngineSessionC11 is C11 at the level of the engine, where the table's lifetime is decided: two engines
// with the same wiring and Zobrist seed, one with a table (1 or 2 MB), one without, are taken through the
// same sequence of games (options changed between games: noise on, noise off; Reset; moves; take-backs)
// and analyses run to completion. Whenever the evaluation is position-determined (noise off) and no
// repetition or fifty-move draw can arise in the tree, every iteration must report the same score on
// both: what earlier games, noisy ones included, left in a table must never reach a later search.
func EngineSessionC11(t *tape.Tape) *core.RunResult {
	res := core.NewResult()
	ctx, cancel := context.WithCancel(context.Background())
	defer cancel()
	z := int64(t.Choose(1 << 16))
	hash := uint(1 + t.Choose(3)) // 3 MB: not a power of two
	mk := func(h uint) *engine.Engine {
		return engine.New(ctx, "c11", "verif", search.AlphaBeta{Eval: search.Leaf{Eval: eval.Material{}}}, engine.WithZobrist(z), engine.WithOptions(engine.Options{Hash: h}))
	}
	a, b := mk(hash), mk(0)
	var starts []StartFEN
	for _, s := range Starts {
		if s.Tag == "open" || s.Tag == "mid" || s.Tag == "castle" || s.Tag == "strip" || s.Tag == "end" {
			starts = append(starts, s)
		}
	}
	st := starts[t.Choose(len(starts))].FEN
	nGames := t.Range(2, 4)
	res.Tracef("engine-level session: hash=%d MB, start %q, %d games", hash, st, nGames)
	analyze := func(e *engine.Engine, d int) ([]search.PV, error) {
		out, err := e.Analyze(ctx, searchctl.Options{DepthLimit: lang.Some(uint(d))})
		if err != nil {
			return nil, err
		}
		var pvs []search.PV
		for pv := range out {
			pvs = append(pvs, pv)
		}
		e.Halt(ctx)
		return pvs, nil
	}
	judged := 0
	noisyBefore := false
	for gi := 0; gi < nGames; gi++ {
		noise := uint(0)
		if t.Chance(1, 2) && gi < nGames-1 {
			noise = uint([]int{30, 200}[t.Choose(2)])
		}
		a.SetNoise(noise)
		b.SetNoise(noise)
		if err := a.Reset(ctx, st); err != nil {
			res.Discarded = "engine refuses a curated start: " + err.Error()
			return res
		}
		b.Reset(ctx, st)
		g, _ := rules.NewGame(st)
		res.Tracef("game %d: noise=%d", gi+1, noise)
		nOps := t.Range(1, 4)
		for op := 0; op < nOps; op++ {
			// the games stay close to each other, so that later ones meet the positions of earlier ones
			switch t.Weighted([]int{3, 1, 4}) {
			case 0:
				cur := g.Pos()
				legal := cur.LegalMoves()
				if len(legal) == 0 {
					continue
				}
				m := legal[t.Choose(min(len(legal), 4))]
				if a.Move(ctx, m.UCI()) != nil || b.Move(ctx, m.UCI()) != nil {
					res.Discarded = "engine refuses a legal move"
					return res
				}
				g.Moves = append(g.Moves, m)
				res.Tracef("move %s", m.UCI())
			case 1:
				if len(g.Moves) == 0 {
					continue
				}
				if a.TakeBack(ctx) != nil || b.TakeBack(ctx) != nil {
					res.Discarded = "engine refuses a take-back"
					return res
				}
				g.Moves = g.Moves[:len(g.Moves)-1]
				res.Tracef("take back")
				res.Fault("take-back")
			case 2:
				d := t.Range(1, 3)
				cur := g.Pos()
				if len(cur.LegalMoves()) == 0 || pieceCount(&cur) > 24 && d > 2 {
					continue
				}
				pa, err := analyze(a, d)
				if err != nil {
					res.Violate("C11", "search-error", judged, "Analyze with a table: %v", err)
					return res
				}
				pb, _ := analyze(b, d)
				res.Tracef("analysis depth %d on %q", d, g.FEN())
				if noise > 0 {
					noisyBefore = true
					continue
				}
				if !noRepetitionPossible(g, d) || g.EverDrawn() {
					res.Inconclusive["excluded-repetition-possible"]++
					continue
				}
				judged++
				if noisyBefore {
					res.Probe("noise-free-analysis-after-a-noisy-game")
				}
				// (a reader that is late loses an iteration to the next one: compare by depth, the last one is never lost)
				byDepth := map[int]eval.Score{}
				for _, pv := range pb {
					byDepth[pv.Depth] = pv.Score
				}
				if len(pa) == 0 || len(pb) == 0 || pa[len(pa)-1].Depth != pb[len(pb)-1].Depth {
					res.Violate("C11", "tt-changes-score", judged, "game %d, depth %d on %q: the analysis with a %d MB table ends with %v, the one without with %v", gi+1, d, g.FEN(), hash, pa, pb)
					return res
				}
				for _, pv := range pa {
					want, ok := byDepth[pv.Depth]
					if !ok {
						continue
					}
					if pv.Score != want {
						res.Violate("C11", "tt-changes-score", judged, "game %d of an engine (noise off; earlier games noisy: %v), depth %d of the analysis of %q: %v with a %d MB table, %v without. What earlier games left in the table reaches this search", gi+1, noisyBefore, pv.Depth, g.FEN(), pv.Score, hash, want)
						return res
					}
				}
			}
		}
	}
	a.Halt(ctx)
	b.Halt(ctx)
	res.Steps = judged
	res.TraceHash = core.HashStrings(res.Trace)
	res.NonTrivial = judged >= 1
	res.Digest = fmt.Sprintf("%016x/%d", res.TraceHash, judged)
	return res
}
