package sb

import (
	"context"
	"fmt"
	"sort"

	"github.com/herohde/morlock/pkg/board"
	"github.com/herohde/morlock/pkg/eval"
	"github.com/herohde/morlock/pkg/search"
	"verif/sim/bridge"
	"verif/sim/core"
	"verif/sim/rules"
	"verif/sim/tape"
)

type ttEntry struct {
	bound search.Bound
	depth int
	score eval.Score
	from  board.Square
	to    board.Square
	promo board.Piece
}

// recTT wraps a real table: it records what the search stores, verifies exact stores against the
// no-table value of the very position being stored (the board is forked at the moment of the write),
// and checks that every hit returns the last store it let through for that hash.
type recTT struct {
	inner  search.TranspositionTable
	b      *board.Board // the board being searched
	cfg    searchCfg
	res    *core.RunResult
	prop   string
	step   int
	stored map[board.ZobristHash]ttEntry
	// verification control
	verify     func() bool  // decides whether this write is verified (sampling); nil = all
	onlyAfter  *countingCtx // if set: only writes after the context fired are verified (C12)
	writes     int
	verified   int
	hits       int
	replaced   int
	bad        bool
	noHitCheck bool // the table was filled behind the wrapper's back (C12 prefill)
	slots      uint64
}

func newRecTT(inner search.TranspositionTable, res *core.RunResult, prop string) *recTT {
	return &recTT{inner: inner, res: res, prop: prop, stored: map[board.ZobristHash]ttEntry{}}
}

func (r *recTT) Size() uint64  { return r.inner.Size() }
func (r *recTT) Used() float64 { return r.inner.Used() }

func (r *recTT) Read(h board.ZobristHash) (search.Bound, int, eval.Score, board.Move, bool) {
	bound, depth, score, mv, ok := r.inner.Read(h)
	if ok {
		r.hits++
		e, known := r.stored[h]
		got := ttEntry{bound, depth, score, mv.From, mv.To, mv.Promotion}
		if (!known || e != got) && !r.noHitCheck {
			if !r.bad {
				r.res.Violate(r.prop, "tt-hit-not-a-store", r.step, "Read(%x) returned %+v; the last store let through for that hash was %+v (known=%v)", uint64(h), got, e, known)
			}
			r.bad = true
		}
	}
	return bound, depth, score, mv, ok
}

func (r *recTT) Write(h board.ZobristHash, bound search.Bound, ply, depth int, score eval.Score, mv board.Move) bool {
	r.writes++
	if bound == search.ExactBound && r.b != nil && !r.bad && (r.onlyAfter == nil || r.onlyAfter.fired) && (r.verify == nil || r.verify()) {
		r.verifyWrite(h, depth, score)
	}
	ok := r.inner.Write(h, bound, ply, depth, score, mv)
	if ok {
		if _, had := r.stored[h]; !had {
			r.replaced++ // counts fresh-or-replacing stores; distinguishes below via Used if needed
		}
		r.stored[h] = ttEntry{bound, depth, score, mv.From, mv.To, mv.Promotion}
	}
	return ok
}

// verifyWrite: the no-table full-window value of the position being stored, at the stored depth, must equal the stored score.
func (r *recTT) verifyWrite(h board.ZobristHash, depth int, score eval.Score) {
	r.verified++
	core.Beat()
	if r.b.Hash() != h {
		r.res.Violate(r.prop, "store-under-wrong-hash", r.step, "Write(%x) while the board's hash is %x", uint64(h), uint64(r.b.Hash()))
		r.bad = true
		return
	}
	fork := r.b.Fork()
	ab := r.cfg.realSearch(nil)
	_, want, _, err := ab.Search(context.Background(), &search.Context{TT: search.NoTranspositionTable{}}, fork, depth)
	if err != nil {
		return
	}
	if want != score {
		halted := ""
		if r.onlyAfter != nil {
			halted = fmt.Sprintf(" after the search was halted at poll %d", r.onlyAfter.at)
		}
		p := bridge.PosFromRepo(r.b.Position(), r.b.Turn())
		kind := "exact-entry-wrong"
		if depth == 0 {
			kind = "exact-leaf-entry-wrong"
		}
		r.res.Violate(r.prop, kind, r.step, "stored as exact%s: %q depth %d = %v, but the search value of that position at that depth (no table, full window) is %v (%s)", halted, p.FEN4(), depth, score, want, r.cfg)
		r.bad = true
	}
}

var tableSlots = []uint64{2, 4, 16, 256, 4096, 65536}

func newRealTable(t *tape.Tape, res *core.RunResult) (search.TranspositionTable, uint64, bool) {
	slots := tableSlots[t.Choose(len(tableSlots))]
	limited := t.Chance(1, 3)
	ctx := context.Background()
	// "a table of any size": the requested size need not be a power of two (it is rounded down to one)
	req := slots << 5
	if t.Chance(1, 3) {
		req += uint64(1 + t.Choose(int(req)-1))
		res.Probe("table-size-not-a-power-of-two")
	}
	if limited {
		return search.NewMinDepthTranspositionTable(1)(ctx, req), slots, true
	}
	return search.NewTranspositionTable(ctx, req), slots, false
}

// noRepetitionPossible is a sufficient condition for C11's precondition: every position of the game
// so far is distinct (a third occurrence then needs more than 5 plies) and the clock cannot reach 100.
func noRepetitionPossible(g *rules.Game, depth int) bool {
	if depth > 5 || g.Half()+depth >= 100 {
		return false
	}
	seen := map[rules.Pos]bool{}
	for _, p := range g.Line() {
		if seen[p] {
			return false
		}
		seen[p] = true
	}
	return true
}

func cfgForTT(t *tape.Tape, p *rules.Pos) searchCfg {
	c := drawCfg(t, p)
	c.selMayDropAll = false // the table checks demand a move at the root; empty explorations are C03's
	if c.depth > 4 {
		c.depth = 4
	}
	return c
}

// SearchSessionC11: sequences of searches sharing one real table of tape-drawn size.
func SearchSessionC11(t *tape.Tape) *core.RunResult {
	res := core.NewResult()
	tags := bigTags
	if t.Chance(1, 2) {
		tags = smallTags
	}
	gs, ok := playHistory(t, res, tags, 10, 1)
	if !ok {
		return res
	}
	inner, slots, limited := newRealTable(t, res)
	rec := newRecTT(inner, res, "C11")
	res.Tracef("table slots=%d min-depth-1 filter=%v", slots, limited)
	cur := gs.g.Pos()
	base := cfgForTT(t, &cur) // evaluation, exploration and ordering stay fixed for the session (one engine)
	nSearch := t.Range(1, 4)
	sample := t.Range(1, 3) // verify every sample-th exact store
	if t.Chance(1, 4) {
		sample = 1
	}
	cnt := 0
	rec.verify = func() bool { cnt++; return cnt%sample == 0 }
	judged := 0
	ctx := context.Background()
	startLen := len(gs.g.Moves) // the history played before the session is not taken back
	takeBack := false
	for i := 0; i < nSearch; i++ {
		cur := gs.g.Pos()
		maxD := cfgForTT(t, &cur).depth
		if len(cur.LegalMoves()) == 0 {
			break
		}
		halted := t.Chance(1, 5)
		for d := 1; d <= maxD; d++ {
			cfg := base
			cfg.depth = d
			if gs.b.Result().Outcome == board.Draw {
				if ev := gs.g.Events(); ev.Material && !ev.Rep3 && !ev.Fifty && len(gs.g.Moves) > startLen {
					// drawn by material right now (not by history): searched as a root all the same (the engine does,
					// a claimable draw does not end the game), with the shared table, unjudged; the game then goes
					// back one ply, where this position is an inner node worth zero whatever the table holds for it
					res.Tracef("search depth=%d on the root %q, drawn by material: unjudged", d, gs.g.FEN())
					rec.b, rec.cfg, rec.step = gs.b, cfg, judged+1
					keep := rec.verify
					rec.verify = nil
					cfg.realSearch(nil).Search(ctx, &search.Context{TT: rec}, gs.b, d)
					rec.verify = keep
					res.Probe("materially-drawn-root-searched-then-taken-back")
					takeBack = true
					continue
				}
				res.Inconclusive["excluded-root-already-drawn"]++
				res.Tracef("excluded from here: the root is already drawn")
				goto done
			}
			if !noRepetitionPossible(gs.g, d) {
				res.Inconclusive["excluded-repetition-possible"]++
				res.Tracef("excluded from here: a repetition or fifty-move draw can arise inside the tree")
				goto done
			}
			rec.b, rec.cfg, rec.step = gs.b, cfg, judged+1
			ab := cfg.realSearch(nil)
			before := snap(gs.b)
			if halted && d == maxD {
				// a halted search in between (C12's fault) must not disturb later judged searches
				probe := newCountingCtx(ctx, 0)
				ab.Search(probe, &search.Context{TT: search.NoTranspositionTable{}}, gs.b.Fork(), d)
				at := 1 + t.Choose(max(probe.polls, 1))
				res.Tracef("search depth=%d halted at poll %d/%d on %q", d, at, probe.polls, gs.g.FEN())
				res.Fault("halt@poll")
				// every exact store made after the halt is verified too: "every exact entry the search stores is
				// the true search value" has no exception for a search that is being abandoned
				cc := newCountingCtx(ctx, at)
				rec.verify, rec.onlyAfter = nil, cc
				ab.Search(cc, &search.Context{TT: rec}, gs.b, d)
				rec.onlyAfter = nil
				rec.verify = func() bool { cnt++; return cnt%sample == 0 }
				if len(res.Violations) > 0 {
					goto done
				}
				continue
			}
			res.Tracef("search depth=%d (%s) on %q", d, cfg, gs.g.FEN())
			_, score, pv, err := ab.Search(ctx, &search.Context{TT: rec}, gs.b, d)
			if err != nil {
				res.Violate("C11", "search-error", judged, "Search with table: %v", err)
				goto done
			}
			if len(res.Violations) > 0 {
				goto done
			}
			if df := before.diff(snap(gs.b)); df != "" {
				res.Discarded = "board not restored by the search (C03's business): " + df
				goto done
			}
			judged++
			// (1) same root score as without a table
			_, want, _, err := ab.Search(ctx, &search.Context{TT: search.NoTranspositionTable{}}, gs.b.Fork(), d)
			if err != nil {
				goto done
			}
			if score != want {
				res.Violate("C11", "tt-changes-score", judged, "search %d of the session, depth %d on %q (%s, table of %d slots): %v with the table, %v without", judged, d, gs.g.FEN(), cfg, slots, score, want)
				goto done
			}
			// (2) PV begins with a best legal move
			if len(pv) == 0 {
				res.Violate("C11", "tt-pv-empty", judged, "search %d of the session, depth %d on %q (table of %d slots) returned %v and no principal variation though legal moves exist", judged, d, gs.g.FEN(), slots, score)
				goto done
			}
			first := bridge.ModelMove(pv[0])
			if !cur.IsLegal(first) {
				res.Violate("C11", "tt-pv-illegal", judged, "PV starts with %s, illegal in %q", first.UCI(), gs.g.FEN())
				goto done
			}
			cb := gs.b.Fork()
			if !cb.PushMove(pv[0]) {
				res.Violate("C11", "tt-pv-illegal", judged, "PV move %v refused by the board", pv[0])
				goto done
			}
			var cs eval.Score
			if cb.Result().Outcome == board.Draw {
				cs, err = eval.ZeroScore, nil // a drawn line counts as zero (and is not searched further)
			} else {
				_, cs, _, err = ab.Search(ctx, &search.Context{TT: search.NoTranspositionTable{}}, cb, d-1)
			}
			if err == nil {
				if v := eval.IncrementMateDistance(cs).Negate(); v != want {
					// the child may itself be a drawn node / terminal: Search at depth d-1 handles both
					res.Violate("C11", "tt-pv-first-move-not-best", judged, "search %d of the session, depth %d on %q (table of %d slots): PV starts with %s worth %v, the value is %v", judged, d, gs.g.FEN(), slots, first.UCI(), v, want)
					goto done
				}
			}
		}
		// a position with an en-passant right and its twin without one are different positions: the key the
		// board has kept move by move for the one must not be the key of the other (else the table hands
		// the entry of one to the other)
		if cur := gs.g.Pos(); cur.EP >= 0 {
			twin := cur
			twin.EP = -1
			if tb, err := bridge.NewBoard(gs.zt, twin.FEN(0, 1)); err == nil && tb.Hash() == gs.b.Hash() {
				res.Violate("C11", "tt-key-shared-by-distinct-positions", judged, "%q (reached by play) and the same position without the en-passant right have the same table key %x: an entry stored for one is returned for the other", gs.g.FEN(), uint64(gs.b.Hash()))
				goto done
			}
			res.Probe("en-passant-twin-key-compared")
		}
		// the game goes back one ply (always after a materially drawn root, else now and then) ...
		if (takeBack || t.Chance(1, 6)) && len(gs.g.Moves) > startLen {
			takeBack = false
			if _, ok := gs.b.PopMove(); !ok {
				res.Discarded = "take-back refused"
				return res
			}
			gs.g.Moves = gs.g.Moves[:len(gs.g.Moves)-1]
			res.Tracef("take back")
			res.Fault("take-back")
			continue
		}
		// ... or advances by 1..2 plies
		for k := t.Range(1, 2); k > 0; k-- {
			cur := gs.g.Pos()
			legal := cur.LegalMoves()
			if len(legal) == 0 {
				break
			}
			m := legal[t.Choose(len(legal))]
			res.Tracef("advance %s", m.UCI())
			if !gs.push(m) {
				res.Discarded = "advance move refused"
				return res
			}
		}
	}
done:
	// aliasing probe: a hash that differs from a stored one only in a bit above the slot index must miss
	// (unless it was itself stored): "every hit returns the tuple of a store for that same hash"
	if len(res.Violations) == 0 && res.Discarded == "" {
		keys := make([]board.ZobristHash, 0, len(rec.stored))
		for h := range rec.stored {
			keys = append(keys, h)
		}
		sort.Slice(keys, func(i, j int) bool { return keys[i] < keys[j] }) // map order must not decide anything
		if len(keys) > 64 {
			keys = keys[:64]
		}
		for _, h := range keys {
			for _, bit := range []uint{20, 31, 32, 33, 47, 63} {
				alias := h ^ board.ZobristHash(uint64(1)<<bit)
				if uint64(alias)&(slots-1) != uint64(h)&(slots-1) {
					continue
				}
				if _, known := rec.stored[alias]; known {
					continue
				}
				if _, d, sc, _, ok := inner.Read(alias); ok {
					res.Violate("C11", "tt-hit-for-another-position", judged, "Read(%x) hits with depth %d score %v although nothing was ever stored for that hash; %x (differing in bit %d only) was", uint64(alias), d, sc, uint64(h), bit)
					break
				}
			}
			if len(res.Violations) > 0 {
				break
			}
		}
	}
	if rec.hits > 0 {
		res.Probes["tt-hit"] += rec.hits
	}
	res.Probes["tt-exact-stores-verified"] += rec.verified
	if used := inner.Used(); used >= 1 {
		res.Probe("table-full")
	}
	if rec.writes > int(slots) {
		res.Probe("more-stores-than-slots")
	}
	res.Steps = judged
	res.TraceHash = core.HashStrings(res.Trace)
	res.NonTrivial = judged >= 2 && rec.hits > 0
	return res
}
