package sb

import (
	"context"

	"github.com/herohde/morlock/cmd/sargon/sargon"
	"github.com/herohde/morlock/pkg/board"
	"github.com/herohde/morlock/pkg/eval"
	"github.com/herohde/morlock/pkg/search"
	"verif/sim/core"
	"verif/sim/tape"
)

// SearchSessionC12 enumerates the cancellation polls of one search: for n = 1..P the search is rerun
// from an identical state with the context's Done() channel closing at exactly the n-th poll.
func SearchSessionC12(t *tape.Tape) *core.RunResult {
	res := core.NewResult()
	tags := bigTags
	if t.Chance(1, 2) {
		tags = smallTags
	}
	gs, ok := playHistory(t, res, tags, 8, 1)
	if !ok {
		return res
	}
	cur := gs.g.Pos()
	if len(cur.LegalMoves()) == 0 {
		res.Tracef("terminal root")
	}
	cfg := cfgForTT(t, &cur)
	if cfg.depth > 3 && pieceCount(&cur) > 6 {
		cfg.depth = 3
	}
	kind := t.Weighted([]int{6, 2, 2}) // alpha-beta | minimax | alpha-beta with SARGON's check-extension leaf
	slots := tableSlots[t.Choose(len(tableSlots))]
	prefill := t.Choose(3) // 0 fresh table, 1 pre-filled by depth-1, 2 pre-filled by the same depth
	ctx := context.Background()

	var root search.Search
	switch kind {
	case 0:
		root = cfg.realSearch(nil)
	case 1:
		if cfg.depth > 2 && pieceCount(&cur) > 8 {
			cfg.depth = 2
		}
		root = search.Minimax{Eval: search.Leaf{Eval: evalAdapter{evalModel(cfg.evalSeed)}}}
		cfg.selective, cfg.quiesce, cfg.prioSeed = 0, false, 0
	case 2:
		ab := cfg.realSearch(nil)
		ab.Eval = sargon.OnePlyIfChecked{Leaf: search.Leaf{Eval: evalAdapter{evalModel(cfg.evalSeed)}}}
		cfg.quiesce = false
		root = ab
	}
	kindName := []string{"alphabeta", "minimax", "alphabeta+check-extension"}[kind]
	useTT := kind == 0
	makeTable := func() search.TranspositionTable {
		if !useTT {
			return search.NoTranspositionTable{}
		}
		tt := search.NewTranspositionTable(ctx, slots<<5)
		if prefill > 0 {
			d := cfg.depth
			if prefill == 1 {
				d = max(1, cfg.depth-1)
			}
			root.Search(ctx, &search.Context{TT: tt}, gs.b.Fork(), d)
		}
		return tt
	}
	res.Tracef("%s %s slots=%d prefill=%d on %q", kindName, cfg, slots, prefill, gs.g.FEN())
	rootDrawn := gs.b.Result().Outcome == board.Draw
	judgeFollowUp := useTT && !rootDrawn && noRepetitionPossible(gs.g, cfg.depth+1)

	// P = number of polls of the complete run from this state
	count := newCountingCtx(ctx, 0)
	before := snap(gs.b)
	if _, _, _, err := root.Search(count, &search.Context{TT: makeTable()}, gs.b, cfg.depth); err != nil {
		res.Discarded = "complete search failed: " + err.Error()
		return res
	}
	if d := before.diff(snap(gs.b)); d != "" && !(len(cur.LegalMoves()) == 0) {
		res.Discarded = "complete search does not restore the board (C03's business): " + d
		return res
	}
	before = snap(gs.b)
	P := count.polls
	// twin follow-ups: same table state, halted search never happened
	var twin [2]eval.Score
	if judgeFollowUp {
		tt := makeTable()
		for i := 0; i < 2; i++ {
			_, twin[i], _, _ = root.Search(ctx, &search.Context{TT: tt}, gs.b.Fork(), cfg.depth+i)
		}
	}
	var ns []int
	limit := core.Scale(250, 1500)
	if P <= limit {
		for n := 1; n <= P; n++ {
			ns = append(ns, n)
		}
		res.Probe("all-polls-enumerated")
	} else {
		for n := 1; n <= 80; n++ {
			ns = append(ns, n)
		}
		for n := P - 79; n <= P; n++ {
			ns = append(ns, n)
		}
		for i := 0; i < 90; i++ {
			ns = append(ns, 81+t.Choose(P-160))
		}
	}
	res.Tracef("polls=%d enumerated=%d", P, len(ns))
	for _, n := range ns {
		core.Beat()
		cc := newCountingCtx(ctx, n)
		if n%2 == 1 {
			// a context ends by its deadline as well as by a cancel function: every other halt is of that kind
			cc.why = context.DeadlineExceeded
		}
		tt := makeTable()
		var rec *recTT
		sctx := &search.Context{TT: tt}
		if useTT {
			rec = newRecTT(tt, res, "C12")
			rec.b, rec.cfg, rec.step, rec.onlyAfter = gs.b, cfg, n, cc
			rec.noHitCheck = prefill > 0
			sctx.TT = rec
		}
		res.Fault("halt@poll")
		res.Evals++
		nodes, score, pv, err := root.Search(cc, sctx, gs.b, cfg.depth)
		if !cc.fired {
			res.Discarded = "poll count not reproducible"
			return res
		}
		if err != search.ErrHalted || nodes != 0 || len(pv) != 0 || !(score.IsInvalid() || score == eval.Score{}) {
			res.Violate("C12", "halted-search-reports-result", n, "%s halted at poll %d/%d on %q returned nodes=%d score=%v pv=%v err=%v; want ErrHalted and no result", kindName, n, P, gs.g.FEN(), nodes, score, pv, err)
			return res
		}
		if d := before.diff(snap(gs.b)); d != "" {
			res.Violate("C12", "board-not-restored-after-halt", n, "%s halted at poll %d/%d on %q: the board differs in %s", kindName, n, P, gs.g.FEN(), d)
			return res
		}
		if len(res.Violations) > 0 {
			return res // a store after the halt failed verification
		}
		if rec != nil && rec.verified > 0 {
			res.Probe("stores-after-halt-verified")
		}
		if judgeFollowUp {
			for i := 0; i < 2; i++ {
				_, got, pv, err := root.Search(ctx, &search.Context{TT: tt}, gs.b, cfg.depth+i)
				if err != nil {
					res.Violate("C12", "follow-up-fails", n, "follow-up search after halt at poll %d: %v", n, err)
					return res
				}
				if got != twin[i] {
					res.Violate("C12", "halt-leaves-something-behind", n, "%s (%s) on %q halted at poll %d/%d; the following depth-%d search on the same table (slots=%d, prefill=%d) returns %v, but %v had the halted search never run", kindName, cfg, gs.g.FEN(), n, P, cfg.depth+i, slots, prefill, got, twin[i])
					return res
				}
				if len(pv) == 0 && len(cur.LegalMoves()) > 0 {
					res.Violate("C12", "follow-up-pv-empty", n, "follow-up search after halt at poll %d/%d on %q returned no PV", n, P, gs.g.FEN())
					return res
				}
			}
			res.Probe("follow-up-judged")
		}
	}
	if cfg.quiesce {
		res.Probe("halt-inside-quiescence-config")
	}
	if prefill > 0 && useTT {
		res.Probe("halt-with-prefilled-table")
	}
	res.Steps = len(ns)
	res.TraceHash = core.HashStrings(res.Trace)
	res.NonTrivial = len(ns) >= 10
	return res
}
