package sb

import (
	"context"
	"fmt"

	"github.com/herohde/morlock/pkg/board"
	"github.com/herohde/morlock/pkg/search"
	"verif/sim/bridge"
	"verif/sim/core"
	"verif/sim/rules"
	"verif/sim/tape"
)

// reference budget in nodes (quick / thorough tier)
func modelBudget() int { return core.Scale(25000, 150000) }

func drawCfg(t *tape.Tape, p *rules.Pos) searchCfg {
	c := searchCfg{}
	n := pieceCount(p)
	b := len(p.LegalMoves())
	// the other side's mobility matters as much: estimate it by giving it the move
	q := *p
	q.WhiteT = !q.WhiteT
	q.EP = -1
	b2 := len(q.LegalMoves())
	if t.Chance(1, 3) {
		c.selective = t.Range(2, 4)
		c.selSeed = uint64(t.Choose(1<<16)) + 1
		c.selMayDropAll = t.Chance(1, 3)
	}
	c.quiesce = t.Chance(1, 3)
	// deepest depth whose estimated tree stays inside the reference budget
	est, maxD := 1.0, 0
	for maxD < 6 {
		br := float64(b)
		if maxD%2 == 1 {
			br = float64(b2)
		}
		if c.selective >= 2 {
			br = br * float64(c.selective-1) / float64(c.selective)
		}
		if br < 1.5 {
			br = 1.5
		}
		if est*br > float64(core.Scale(5000, 30000)) {
			break
		}
		est *= br
		maxD++
	}
	if c.quiesce && n > 8 {
		maxD--
	}
	maxD = max(maxD, 1)
	c.depth = t.Range(1, maxD)
	if t.Chance(1, 2) {
		c.depth = maxD // bias to the deepest affordable search
	}
	if t.Chance(3, 4) {
		c.evalSeed = uint64(t.Choose(1<<16)) + 1
	}
	if t.Chance(1, 2) {
		c.prioSeed = uint64(t.Choose(1<<16)) + 1
	}
	return c
}

var smallTags = []string{"mate", "strip", "end", "promo"}
var bigTags = []string{"mid", "open", "castle", "ep", "fifty"}

// SearchSessionC03: search as one operation of a board session, vs. exhaustive negamax on the model game.
func SearchSessionC03(t *tape.Tape) *core.RunResult {
	res := core.NewResult()
	tags := bigTags
	if t.Chance(1, 2) {
		tags = smallTags
	}
	gs, ok := playHistory(t, res, tags, 14, 4)
	if !ok {
		return res
	}
	nSearch := t.Range(1, 3)
	judged := 0
	for i := 0; i < nSearch; i++ {
		cur := gs.g.Pos()
		cfg := drawCfg(t, &cur)
		res.Tracef("search %s on %q", cfg, gs.g.FEN())
		if !checkC03(t, res, gs, cfg, i+1) {
			break
		}
		judged++
		// advance the game by 1..2 plies
		for k := t.Range(1, 2); k > 0; k-- {
			cur := gs.g.Pos()
			legal := cur.LegalMoves()
			if len(legal) == 0 {
				break
			}
			m := legal[t.Choose(len(legal))]
			res.Tracef("advance %s", m.UCI())
			if !gs.push(m) {
				res.Discarded = "advance move refused"
				return res
			}
		}
	}
	res.Steps = judged
	res.TraceHash = core.HashStrings(res.Trace)
	res.NonTrivial = judged > 0 && len(gs.g.Moves) >= 2
	return res
}

func checkC03(t *tape.Tape, res *core.RunResult, gs *gameSetup, cfg searchCfg, step int) bool {
	ctx := context.Background()
	ab := cfg.realSearch(nil)
	before := snap(gs.b)
	cur := gs.g.Pos()
	legal := cur.LegalMoves()
	rootDrawn := gs.g.EverDrawn() || gs.b.Result().Outcome == board.Draw
	// reference first (budgeted); an over-budget reference means the operation is skipped and counted
	ms, root := cfg.model(gs.g, modelBudget())
	val, opt, per := root(cfg.depth)
	if ms.Over {
		res.Inconclusive["model-over-budget"]++
		res.Probe(fmt.Sprintf("over d=%d sel=%d q=%v n=%d", cfg.depth, cfg.selective, cfg.quiesce, pieceCount(&cur)))
		return true
	}
	if ms.QStalemates > 0 {
		res.Probe("stalemate-inside-quiescence")
	}
	if ms.QMates > 0 {
		res.Probe("mate-inside-quiescence")
	}
	cc := newCountingCtx(ctx, 40*ms.Nodes+20000)
	nodes, score, pv, err := ab.Search(cc, &search.Context{TT: search.NoTranspositionTable{}}, gs.b, cfg.depth)
	_ = nodes
	if err == search.ErrHalted && cc.fired {
		res.Inconclusive["real-search-over-budget"]++
		return true
	}
	if err != nil {
		res.Violate("C03", "search-error", step, "Search returned %v on %q (%s)", err, gs.g.FEN(), cfg)
		return false
	}
	after := snap(gs.b)
	if d := before.diff(after); d != "" {
		// a root without legal moves may be adjudicated (lazy discovery of a true result)
		adjudicated := len(legal) == 0 && before.result.Outcome == board.Undecided && after.result.IsTerminal() && func() bool {
			a, b := before, after
			a.result, b.result = board.Result{}, board.Result{}
			return a.diff(b) == ""
		}()
		if !adjudicated {
			res.Violate("C03", "board-not-restored", step, "after Search(%s) on %q the board differs in %s", cfg, gs.g.FEN(), d)
			return false
		}
	}
	if ms.DrawMet {
		res.Probe("in-tree-history-draw")
	}
	if ms.MateMixed {
		res.Probe("node-with-distinct-mated-in-k")
	}
	if val.Class != 0 {
		res.Probe("root-value-is-mate")
	}
	if rootDrawn {
		res.Probe("root-drawn-by-history")
	} else {
		got, ok := scoreToVal(score)
		if !ok {
			res.Violate("C03", "value-mismatch", step, "Search(%s) on %q (history %s) returned the malformed score %v; exhaustive minimax says %s", cfg, gs.g.FEN(), movesText(gs.g.Moves), score, valText(val))
			return false
		}
		if got.Key() != val.Key() {
			kind := "value-mismatch"
			if got.Class != 0 || val.Class != 0 {
				kind = "mate-value-mismatch"
			}
			res.Violate("C03", kind, step, "Search(%s) on %q (history %s) returned %v; exhaustive minimax over the same moves and leaves says %s", cfg, gs.g.FEN(), movesText(gs.g.Moves), score, valText(val))
			return false
		}
	}
	// principal variation: legal line from the root, no longer than the depth
	if len(pv) > cfg.depth {
		res.Violate("C03", "pv-too-long", step, "PV %v longer than depth %d", pv, cfg.depth)
		return false
	}
	p := cur
	for i, m := range pv {
		mm := bridge.ModelMove(m)
		if !p.IsLegal(mm) {
			res.Violate("C03", "pv-illegal", step, "PV move %d (%s) of %v is illegal in %q (root %q, %s)", i+1, mm.UCI(), pv, p.FEN4(), gs.g.FEN(), cfg)
			return false
		}
		p = p.Make(mm)
	}
	if ms.NoneExplored {
		res.Probe("node-with-no-explored-move")
	}
	if !rootDrawn && len(legal) > 0 && len(opt) > 0 {
		if len(pv) == 0 {
			res.Violate("C03", "pv-empty", step, "Search(%s) on %q returned %v with an empty PV though legal moves exist", cfg, gs.g.FEN(), score)
			return false
		}
		first := bridge.ModelMove(pv[0])
		found := false
		for _, m := range opt {
			if m == first {
				found = true
			}
		}
		if !found {
			res.Violate("C03", "pv-first-move-not-best", step, "Search(%s) on %q: PV starts with %s worth %s, the value is %s", cfg, gs.g.FEN(), first.UCI(), valText(per[first]), valText(val))
			return false
		}
	}
	// In one judged search out of three, every explored root move is searched on its own, one ply less deep:
	// a wrong value two plies down rarely moves the root value (a maximum hides all but the best line), but
	// it does move the value of the move it belongs to.
	if !rootDrawn && cfg.depth >= 1 && t.Chance(1, 3) {
		for _, m := range legal {
			want, explored := per[m]
			if !explored {
				continue
			}
			g2 := gs.g.Clone()
			g2.Moves = append(g2.Moves, m)
			if g2.EverDrawn() {
				continue // as a root the draw would be cleared, as an inner node it is worth zero: not comparable
			}
			rm, ok := bridge.FindRepoMove(gs.b.Position(), gs.b.Turn(), m)
			if !ok || !gs.b.PushMove(rm) {
				continue
			}
			cc2 := newCountingCtx(ctx, 40*ms.Nodes+20000)
			_, sc, _, err := ab.Search(cc2, &search.Context{TT: search.NoTranspositionTable{}}, gs.b, cfg.depth-1)
			gs.b.PopMove()
			if err != nil {
				continue
			}
			got, ok := scoreToVal(sc)
			if !ok {
				continue
			}
			if got = got.NegInc(); got.Key() != want.Key() {
				kind := "value-mismatch"
				if got.Class != 0 || want.Class != 0 {
					kind = "mate-value-mismatch"
				}
				res.Violate("C03", kind, step, "Search(%s, one ply less) after %s on %q (history %s) returned %v, which makes the move worth %s; exhaustive minimax over the same moves and leaves says %s", cfg, m.UCI(), gs.g.FEN(), movesText(gs.g.Moves), sc, valText(got), valText(want))
				return false
			}
			res.Probe("root-move-searched-on-its-own")
		}
		if d := before.diff(snap(gs.b)); d != "" && len(legal) > 0 {
			res.Violate("C03", "board-not-restored", step, "after searching the root moves of %q one by one the board differs in %s", gs.g.FEN(), d)
			return false
		}
	}
	return true
}
