package sb

import (
	"context"
	"fmt"

	"github.com/herohde/morlock/pkg/board"
	"github.com/herohde/morlock/pkg/eval"
	"github.com/herohde/morlock/pkg/search"
	"verif/sim/bridge"
	"verif/sim/core"
	"verif/sim/msearch"
	"verif/sim/rules"
	"verif/sim/tape"
)

// searchCfg is one search configuration, applied identically to the real search and to M-search.
type searchCfg struct {
	depth         int
	selective     int  // 0 = full exploration; k>=2: drop moves with h(m)%k==0 (the first legal move is always kept unless selMayDropAll)
	selMayDropAll bool // the exploration may select no move at all at a node (minimax over an empty set = lost)
	selSeed       uint64
	quiesce       bool   // leaf = quiescence over captures (and promotions) instead of the static evaluation
	evalSeed      uint64 // piece-square perturbation
	prioSeed      uint64 // 0 = MVV-LVA ordering, else a seeded arbitrary ordering
}

func (c searchCfg) String() string {
	return fmt.Sprintf("depth=%d selective=%d(mayDropAll=%v) quiesce=%v evalSeed=%d prioSeed=%d", c.depth, c.selective, c.selMayDropAll, c.quiesce, c.evalSeed, c.prioSeed)
}

func hmix(x uint64) uint64 {
	x ^= x >> 33
	x *= 0xff51afd7ed558ccd
	x ^= x >> 33
	x *= 0xc4ceb9fe1a85ec53
	x ^= x >> 33
	return x
}

func moveHash(seed uint64, m rules.Move) uint64 {
	return hmix(seed ^ uint64(m.From)<<16 ^ uint64(m.To)<<8 ^ uint64(m.Promo))
}

var pieceVal = [7]float32{0, 1, 3, 3, 5, 9, 0}

// evalModel is a position-determined evaluation: material plus a seeded piece-square term in
// multiples of 1/8 pawn (exact in float32), from the side to move's point of view.
func evalModel(seed uint64) func(p *rules.Pos) float32 {
	return func(p *rules.Pos) float32 {
		var sum float32
		for s := 0; s < 64; s++ {
			q := p.B[s]
			if q == rules.Empty {
				continue
			}
			v := pieceVal[q.Kind()]
			if seed != 0 {
				c := uint64(0)
				if q.White() {
					c = 1
				}
				v += float32(int(hmix(seed^uint64(q.Kind())<<8^uint64(s)^c<<16)%9)-4) / 8
			}
			if q.White() == p.WhiteT {
				sum += v
			} else {
				sum -= v
			}
		}
		return sum
	}
}

func (c searchCfg) keep(p *rules.Pos, m rules.Move) bool {
	if c.selective < 2 {
		return true
	}
	if moveHash(c.selSeed, m)%uint64(c.selective) != 0 {
		return true
	}
	if c.selMayDropAll {
		return false
	}
	legal := p.LegalMoves()
	return len(legal) > 0 && legal[0] == m
}

// qkeep is the quiescence exploration predicate (the same on both sides): every capture in small
// positions; only captures of a more valuable piece in crowded ones (an exhaustive capture tree of a
// 30-piece middlegame does not fit any reference budget).
func qkeep(p *rules.Pos, m rules.Move) bool {
	in := p.Describe(m)
	if in.Capture == rules.Empty {
		return false
	}
	if pieceCount(p) <= 12 {
		return true
	}
	return pieceVal[in.Capture] > pieceVal[in.Piece]
}

type evalAdapter struct{ f func(p *rules.Pos) float32 }

func (e evalAdapter) Evaluate(ctx context.Context, b *board.Board) eval.Pawns {
	p := bridge.PosFromRepo(b.Position(), b.Turn())
	return eval.Pawns(e.f(&p))
}

// realSearch builds the real AlphaBeta for the configuration; leafWrap lets a caller interpose on the leaf evaluator.
func (c searchCfg) realSearch(leafWrap func(eval.Evaluator) eval.Evaluator) search.AlphaBeta {
	var ev eval.Evaluator = evalAdapter{evalModel(c.evalSeed)}
	if leafWrap != nil {
		ev = leafWrap(ev)
	}
	prio := search.MVVLVA
	if c.prioSeed != 0 {
		seed := c.prioSeed
		prio = func(m board.Move) board.MovePriority {
			return board.MovePriority(moveHash(seed, bridge.ModelMove(m)) % 1000)
		}
	}
	explore := func(ctx context.Context, b *board.Board) (board.MovePriorityFn, board.MovePredicateFn) {
		if c.selective < 2 {
			return prio, search.IsAnyMove
		}
		p := bridge.PosFromRepo(b.Position(), b.Turn())
		return prio, func(m board.Move) bool { return c.keep(&p, bridge.ModelMove(m)) }
	}
	ab := search.AlphaBeta{Explore: explore}
	if c.quiesce {
		ab.Eval = search.Quiescence{
			Explore: func(ctx context.Context, b *board.Board) (board.MovePriorityFn, board.MovePredicateFn) {
				p := bridge.PosFromRepo(b.Position(), b.Turn())
				return search.MVVLVA, func(m board.Move) bool { return qkeep(&p, bridge.ModelMove(m)) }
			},
			Eval: search.Leaf{Eval: ev},
		}
	} else {
		ab.Eval = search.Leaf{Eval: ev}
	}
	return ab
}

func (c searchCfg) model(g *rules.Game, budget int) (*msearch.Searcher, func(depth int) (msearch.Val, []rules.Move, map[rules.Move]msearch.Val)) {
	cfg := msearch.Config{Leaf: evalModel(c.evalSeed), Quiesce: c.quiesce, QExplore: qkeep, Budget: budget}
	if c.selective >= 2 {
		cfg.Explore = c.keep
	}
	s, root := msearch.New(g, cfg)
	return s, func(depth int) (msearch.Val, []rules.Move, map[rules.Move]msearch.Val) { return s.Root(root, depth) }
}

// scoreToVal maps eval.Score to M-score reading only its public fields.
func scoreToVal(s eval.Score) (msearch.Val, bool) {
	switch s.Type {
	case eval.Heuristic:
		return msearch.Val{H: float32(s.Pawns)}, true
	case eval.MateInX:
		if s.Mate > 0 {
			return msearch.Val{Class: 1, Plies: int(s.Mate)}, true
		}
		if s.Mate < 0 {
			return msearch.Val{Class: -1, Plies: int(-s.Mate)}, true
		}
		return msearch.Val{}, false
	case eval.Inf:
		return msearch.Val{Class: 1}, true
	case eval.NegInf:
		return msearch.Val{Class: -1}, true
	}
	return msearch.Val{}, false
}

func valText(v msearch.Val) string {
	switch v.Class {
	case -1:
		return fmt.Sprintf("mated-in-%d", v.Plies)
	case 1:
		return fmt.Sprintf("mate-in-%d", v.Plies)
	}
	return fmt.Sprintf("%.3f", v.H)
}

// snapshot of everything a board reports (result normalised: Unknown and Undecided are both "open").
type boardSnap struct {
	pos        board.Position
	turn       board.Color
	hash       board.ZobristHash
	np, ply    int
	full       int
	castled    [2]bool
	last, prev board.Move
	lastOK     bool
	prevOK     bool
	moved      [3]board.Bitboard
	str        string
	result     board.Result
}

func normResult(r board.Result) board.Result {
	if !r.IsTerminal() {
		return board.Result{Outcome: board.Undecided}
	}
	return r
}

func snap(b *board.Board) boardSnap {
	s := boardSnap{pos: *b.Position(), turn: b.Turn(), hash: b.Hash(), np: b.NoProgress(), ply: b.Ply(), full: b.FullMoves(),
		castled: [2]bool{b.HasCastled(board.White), b.HasCastled(board.Black)}, str: stripResult(b.String()), result: normResult(b.Result())}
	s.last, s.lastOK = b.LastMove()
	s.prev, s.prevOK = b.SecondToLastMove()
	for i, k := range []int{1, 2, 1000} {
		s.moved[i] = b.HasMoved(k)
	}
	return s
}

func (a boardSnap) diff(b boardSnap) string {
	switch {
	case a.pos != b.pos:
		return "Position"
	case a.turn != b.turn:
		return "Turn"
	case a.hash != b.hash:
		return "Hash"
	case a.np != b.np:
		return "NoProgress"
	case a.ply != b.ply:
		return fmt.Sprintf("Ply %d->%d", a.ply, b.ply)
	case a.full != b.full:
		return "FullMoves"
	case a.castled != b.castled:
		return "HasCastled"
	case a.last != b.last || a.lastOK != b.lastOK:
		return "LastMove"
	case a.prev != b.prev || a.prevOK != b.prevOK:
		return "SecondToLastMove"
	case a.moved != b.moved:
		return "HasMoved"
	case a.str != b.str:
		return fmt.Sprintf("String %q -> %q", a.str, b.str)
	case a.result != b.result:
		return fmt.Sprintf("Result %v -> %v", a.result, b.result)
	}
	return ""
}

// gameSetup plays a tape-drawn history on a fresh board and its model twin.
type gameSetup struct {
	zt    *board.ZobristTable
	b     *board.Board
	g     *rules.Game
	start string
}

// playHistory sets up a start position and plays n plies with the usual biases. ok=false: discard.
func playHistory(t *tape.Tape, res *core.RunResult, tags []string, maxPlies, maxReverse int) (*gameSetup, bool) {
	var cand []StartFEN
	for _, s := range Starts {
		for _, tg := range tags {
			if s.Tag == tg {
				cand = append(cand, s)
			}
		}
	}
	st := cand[t.Choose(len(cand))]
	zt := board.NewZobristTable(int64(t.Choose(1 << 16)))
	g, _ := rules.NewGame(st.FEN)
	b, err := bridge.NewBoard(zt, st.FEN)
	if err != nil {
		res.Discarded = "start rejected"
		return nil, false
	}
	gs := &gameSetup{zt: zt, b: b, g: g, start: st.FEN}
	n := t.Choose(maxPlies + 1)
	pReverse := t.Choose(maxReverse + 1)
	res.Tracef("start=%q history=%d", st.FEN, n)
	for i := 0; i < n; i++ {
		cur := g.Pos()
		legal := cur.LegalMoves()
		if len(legal) == 0 {
			break
		}
		m := legal[t.Choose(len(legal))]
		if k := len(g.Moves); k >= 2 && t.Choose(10) < pReverse {
			rev := rules.Move{From: g.Moves[k-2].To, To: g.Moves[k-2].From}
			if cur.IsLegal(rev) {
				m = rev
			}
		}
		if !gs.push(m) {
			res.Discarded = "history move refused"
			return nil, false
		}
	}
	res.Tracef("history: %s", movesText(g.Moves))
	return gs, true
}

func (gs *gameSetup) push(m rules.Move) bool {
	rm, ok := bridge.FindRepoMove(gs.b.Position(), gs.b.Turn(), m)
	if !ok || !gs.b.PushMove(rm) {
		return false
	}
	gs.g.Moves = append(gs.g.Moves, m)
	return true
}

func pieceCount(p *rules.Pos) int {
	n := 0
	for _, q := range p.B {
		if q != rules.Empty {
			n++
		}
	}
	return n
}

// countingCtx is the cancellation seam: contextx.IsCancelled calls Done() once per poll, so a
// context that counts Done() calls and closes its channel at the n-th is an exact, replayable
// crash point. at<=0: never fires (pure counter).
type countingCtx struct {
	context.Context
	polls int
	at    int
	ch    chan struct{}
	fired bool
	why   error // what Err() reports once fired (nil: context.Canceled); a context also ends by its deadline
}

// BudgetCtx is a context that reports cancellation at the n-th poll: a reference search that a bogus
// depth would turn into an endless one ends with an error instead (and the comparison is skipped).
func BudgetCtx(n int) context.Context { return newCountingCtx(context.Background(), n) }

func newCountingCtx(parent context.Context, at int) *countingCtx {
	return &countingCtx{Context: parent, at: at, ch: make(chan struct{})}
}

func (c *countingCtx) Done() <-chan struct{} {
	c.polls++
	if c.at > 0 && c.polls >= c.at && !c.fired {
		c.fired = true
		close(c.ch)
	}
	return c.ch
}

func (c *countingCtx) Err() error {
	if c.fired {
		if c.why != nil {
			return c.why
		}
		return context.Canceled
	}
	return nil
}

// Cfg is the exported face of a search configuration, for the S-A simulator.
type Cfg struct{ c searchCfg }

// DrawCfg draws a configuration suited to the position (depth bounded by the reference budget).
func DrawCfg(t *tape.Tape, p *rules.Pos) Cfg {
	c := drawCfg(t, p)
	c.selMayDropAll = false
	return Cfg{c}
}

func (c Cfg) String() string { return c.c.String() }
func (c Cfg) MaxDepth() int  { return c.c.depth }

// Search builds the real AlphaBeta; wrap interposes on the leaf evaluator (the gate).
func (c Cfg) Search(wrap func(eval.Evaluator) eval.Evaluator) search.AlphaBeta {
	return c.c.realSearch(wrap)
}

// PlayHistory sets up a start position of one of the tag groups and plays a tape-drawn history.
func PlayHistory(t *tape.Tape, res *core.RunResult, small bool, maxPlies, maxReverse int) (*board.Board, *rules.Game, bool) {
	tags := bigTags
	if small {
		tags = smallTags
	}
	gs, ok := playHistory(t, res, tags, maxPlies, maxReverse)
	if !ok {
		return nil, nil, false
	}
	return gs.b, gs.g, true
}

// Snap / Diff expose the board snapshot used by the "handed back unchanged" oracles.
type BoardSnap struct{ s boardSnap }

func Snap(b *board.Board) BoardSnap         { return BoardSnap{snap(b)} }
func (a BoardSnap) Diff(b BoardSnap) string { return a.s.diff(b.s) }
