package sb

import (
	"fmt"

	"verif/sim/rules"
)

// Curated start positions. Tags steer the swarm: which generator biases make sense.
type StartFEN struct {
	FEN string
	Tag string
}

var Starts = []StartFEN{
	{"rnbqkbnr/pppppppp/8/8/8/8/PPPPPPPP/RNBQKBNR w KQkq - 0 1", "open"},
	{"r3k2r/p1ppqpb1/bn2pnp1/3PN3/1p2P3/2N2Q1p/PPPBBPPP/R3K2R w KQkq - 0 1", "mid"},
	{"r3k2r/p1ppqpb1/bn2pnp1/3PN3/1p2P3/2N2Q1p/PPPBBPPP/R3K2R b KQkq - 3 7", "mid"},
	{"8/2p5/3p4/KP5r/1R3p1k/8/4P1P1/8 w - - 0 1", "end"},
	{"r3k2r/Pppp1ppp/1b3nbN/nP6/BBP1P3/q4N2/Pp1P2PP/R2Q1RK1 w kq - 0 1", "mid"},
	{"rnbq1k1r/pp1Pbppp/2p5/8/2B5/8/PPP1NnPP/RNBQK2R w KQ - 1 8", "mid"},
	{"r4rk1/1pp1qppp/p1np1n2/2b1p1B1/2B1P1b1/P1NP1N2/1PP1QPPP/R4RK1 w - - 0 10", "mid"},
	{"r3k2r/8/8/8/8/8/8/R3K2R w KQkq - 0 1", "castle"},
	{"r3k2r/8/8/8/8/8/8/R3K2R b KQkq - 5 20", "castle"},
	{"r3k2r/8/8/8/8/8/8/R3K2R w Kq - 12 31", "castle"},
	{"r3k2r/8/8/8/8/8/8/R3K2R b Qk - 40 11", "castle"},
	{"r3k2r/pppq1ppp/2npbn2/2b1p3/2B1P3/2NPBN2/PPPQ1PPP/R3K2R w Kq - 4 9", "castle"},
	{"rnbqkbnr/ppp1pppp/8/8/3pP3/8/PPPP1PPP/RNBQKBNR b KQkq e3 0 3", "ep"},
	{"rnbqkbnr/pppp1ppp/8/8/3Pp3/8/PPP1PPPP/RNBQKBNR b KQkq d3 0 3", "ep"},
	{"rnbqkbnr/pp1ppppp/8/2pP4/8/8/PPP1PPPP/RNBQKBNR w KQkq c6 0 3", "ep"},
	{"8/8/8/8/k2Pp2R/8/8/4K3 b - d3 0 1", "ep"},
	{"4k3/8/8/1pP5/8/8/8/4K3 w - b6 0 30", "ep"},
	{"4k3/P6P/8/8/8/8/p6p/4K3 w - - 0 1", "promo"},
	{"4k3/P6P/8/8/8/8/p6p/4K3 b - - 0 1", "promo"},
	{"rn2k1nr/1P4P1/8/8/8/8/1p4p1/RN2K1NR w KQkq - 0 1", "promo"},
	{"rn2k1nr/1P4P1/8/8/8/8/1p4p1/RN2K1NR b KQkq - 0 1", "promo"},
	{"8/8/4k3/8/8/2pK4/8/6N1 w - - 0 1", "strip"},
	{"8/8/4kb2/8/3p4/3KB3/8/8 w - - 0 1", "strip"},
	{"8/5b2/4k3/8/3p4/3KB3/8/8 w - - 0 1", "strip"},
	{"8/8/4k3/8/3p4/3K4/8/5NN1 w - - 0 1", "strip"},
	{"8/8/4k3/8/3p4/3KP3/8/8 w - - 0 1", "strip"},
	{"8/8/4k3/8/3p4/3KB3/8/2B5 w - - 0 1", "strip"},
	{"8/8/4k3/8/3p4/3KB3/8/3B4 w - - 0 1", "strip"},
	{"8/4P1k1/8/8/8/8/8/4K3 w - - 0 1", "strip"},
	{"3r2k1/4P3/8/8/8/8/8/4K3 w - - 0 1", "strip"},
	{"4k3/8/8/8/8/8/4p1K1/3R4 b - - 0 1", "strip"},
	{"8/8/8/2n1k3/8/2N1K3/8/8 w - - 0 1", "strip"},
	{"8/8/8/4k3/8/8/8/KQ6 w - - 0 1", "mate"},
	{"8/8/8/4k3/8/8/8/RK6 w - - 0 1", "mate"},
	{"6k1/5ppp/8/8/8/8/8/R5K1 w - - 0 1", "mate"},
	{"7k/5Q2/5K2/8/8/8/8/8 w - - 0 1", "mate"},
	{"k7/8/1K6/8/8/8/8/7R w - - 0 1", "mate"},
	{"7k/8/5KQ1/8/8/8/8/8 w - - 10 50", "mate"},
	{"5k2/8/5K2/8/8/8/8/6r1 b - - 3 44", "mate"},
	{"4k3/8/8/8/8/8/4P3/R3K2R w KQ - 96 60", "fifty"},
	{"r3k2r/4p3/8/8/8/8/8/4K3 b kq - 97 70", "fifty"},
	{"8/8/3nk3/8/8/3NK3/8/8 w - - 92 80", "fifty"},
	{"8/8/3nk3/8/8/3NK3/8/8 b - - 99 80", "fifty"},
	{"r3k2r/8/8/8/8/8/8/R3K2R w KQkq - 95 100", "fifty"},
	{"1r2k2r/8/8/8/8/8/8/R3K1R1 w Qk - 90 100", "fifty"},
	{"r1bqkbnr/pppp1ppp/2n5/4p3/4P3/5N2/PPPP1PPP/RNBQKB1R w KQkq - 2 3", "open"},
	{"rnbqkbnr/pppp1ppp/8/4p3/4P3/5N2/PPPP1PPP/RNBQKB1R b KQkq - 1 2", "open"},
	{"r1bq1rk1/ppp2ppp/2np1n2/2b1p3/2B1P3/2NP1N2/PPP2PPP/R1BQ1RK1 w - - 0 7", "mid"},
	{"2kr3r/ppp2ppp/2n1bn2/2b1p3/4P3/2NP1N2/PPP1BPPP/R1B2RK1 b - - 6 9", "mid"},
	// kings and short-range pieces on opposite edge files, ranks apart by what a shifted bit mask would
	// carry across the board edge (pawn, knight and king patterns)
	{"7k/8/P7/8/8/7p/8/K7 w - - 0 1", "edge"},
	{"8/k7/8/7P/p7/8/7K/8 w - - 0 1", "edge"},
	{"7k/8/N7/8/8/n7/8/7K w - - 0 1", "edge"},
	{"8/8/8/p6k/K6P/8/8/8 w - - 0 1", "edge"},
	{"k7/7P/8/8/8/8/p7/7K b - - 0 1", "edge"},
	{"8/8/7k/K6p/P7/8/8/8 b - - 0 1", "edge"},
}

// Scatter draws a random legal position of both kings and up to six more pieces; half of the time the
// pieces are kept to the four edge files. No castling rights, no en-passant target.
func Scatter(choose func(n int) int) string {
	for {
		var sq [64]byte
		edge := choose(2) == 0
		place := func(c byte) bool {
			for try := 0; try < 20; try++ {
				f, r := choose(8), choose(8)
				if edge {
					f = []int{0, 1, 6, 7}[choose(4)]
				}
				if (c == 'P' || c == 'p') && (r == 0 || r == 7) {
					continue
				}
				if sq[r*8+f] == 0 {
					sq[r*8+f] = c
					return true
				}
			}
			return false
		}
		place('K')
		place('k')
		for n := choose(7); n > 0; n-- {
			place("PPpNnBbRrQqpP"[choose(13)])
		}
		var sb []byte
		for r := 7; r >= 0; r-- {
			e := 0
			for f := 0; f < 8; f++ {
				if c := sq[r*8+f]; c != 0 {
					if e > 0 {
						sb = append(sb, byte('0'+e))
						e = 0
					}
					sb = append(sb, c)
				} else {
					e++
				}
			}
			if e > 0 {
				sb = append(sb, byte('0'+e))
			}
			if r > 0 {
				sb = append(sb, '/')
			}
		}
		f := string(sb) + " " + []string{"w", "b"}[choose(2)] + " - - 0 1"
		p, h, fm, err := rules.ParseFEN(f)
		if err != nil || p.FEN(h, fm) != f || p.InCheck(!p.WhiteT) || p.KingSq(true) < 0 || p.KingSq(false) < 0 {
			continue
		}
		// kings must not touch (InCheck sees that as an attack on the side not to move only)
		if p.InCheck(p.WhiteT) && len(p.LegalMoves()) == 0 {
			continue
		}
		wk, bk := p.KingSq(true), p.KingSq(false)
		if d := abs(wk/8 - bk/8); d <= 1 && abs(wk%8-bk%8) <= 1 {
			continue
		}
		return f
	}
}

func abs(x int) int {
	if x < 0 {
		return -x
	}
	return x
}

// ValidateStarts checks the curated list with the model only (what /repo makes of them is judged inside the runs); a failure is harness trouble.
func ValidateStarts() error {
	for _, s := range Starts {
		p, h, f, err := rules.ParseFEN(s.FEN)
		if err != nil {
			return err
		}
		if p.FEN(h, f) != s.FEN {
			return fmt.Errorf("start %q is not canonical (model writes %q)", s.FEN, p.FEN(h, f))
		}
		if p.InCheck(!p.WhiteT) {
			return fmt.Errorf("start %q: side not to move is in check", s.FEN)
		}
		if p.KingSq(true) < 0 || p.KingSq(false) < 0 {
			return fmt.Errorf("start %q: missing king", s.FEN)
		}
	}
	return nil
}
