package sb

import (
	"testing"
	"verif/sim/rules"
)

func TestStarts(t *testing.T) {
	for _, s := range Starts {
		p, h, f, err := rules.ParseFEN(s.FEN)
		if err != nil {
			t.Error(err)
			continue
		}
		if p.FEN(h, f) != s.FEN {
			t.Errorf("noncanon %q", s.FEN)
		}
		if p.InCheck(!p.WhiteT) {
			t.Errorf("check %q", s.FEN)
		}
		if s.Tag != "mate" && len(p.LegalMoves()) == 0 {
			t.Errorf("nomoves %q", s.FEN)
		}
	}
}
