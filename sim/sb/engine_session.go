package sb

import (
	"context"
	"fmt"

	"github.com/herohde/morlock/pkg/engine"
	"github.com/herohde/morlock/pkg/eval"
	"github.com/herohde/morlock/pkg/search"
	"verif/sim/core"
	"verif/sim/rules"
	"verif/sim/tape"
)

// EngineSession drives Engine.Reset/Move/TakeBack sequentially and compares the FEN the
// engine reports with the standard FEN of the model game after every call (C14, engine part).
func EngineSession(t *tape.Tape) *core.RunResult {
	res := core.NewResult()
	ctx := context.Background()
	e := engine.New(ctx, "sim", "verif", search.AlphaBeta{Eval: search.Leaf{Eval: eval.Material{}}},
		engine.WithZobrist(int64(t.Choose(1<<16))), engine.WithOptions(engine.Options{Depth: 1}))
	g, _ := rules.NewGame("rnbqkbnr/pppppppp/8/8/8/8/PPPPPPPP/RNBQKBNR w KQkq - 0 1")
	nOps := t.Range(3, 60)
	if t.Chance(1, 5) {
		nOps = t.Range(60, 250)
	}
	pReverse := t.Choose(10)
	wReset, wBack := 1+t.Choose(2), t.Choose(6)
	pushes, backs := 0, 0
	step := 0
	check := func(what string) bool {
		want := g.FEN()
		got := e.Position()
		if got != want {
			res.Violate("C14", "engine-fen-wrong", step, "after %s the engine reports %q, the standard FEN of its game (%s from %q) is %q", what, got, movesText(g.Moves), g.Start.FEN(g.StartHalf, g.StartFull), want)
			return false
		}
		return true
	}
	res.Tracef("engine session ops=%d", nOps)
	if !check("New") {
		return res
	}
	for i := 0; i < nOps; i++ {
		step++
		cur := g.Pos()
		legal := cur.LegalMoves()
		w := []int{10, wReset, wBack}
		if len(legal) == 0 {
			w[0] = 0
		}
		switch t.Weighted(w) {
		case 0:
			var m rules.Move
			picked := false
			if n := len(g.Moves); n >= 2 && t.Choose(10) < pReverse {
				rev := rules.Move{From: g.Moves[n-2].To, To: g.Moves[n-2].From}
				if cur.IsLegal(rev) {
					m, picked = rev, true
				}
			}
			if !picked {
				// bias to castling (clock must not reset) and captures / pawn moves (clock must reset)
				var sp []rules.Move
				for _, x := range legal {
					if in := cur.Describe(x); in.Castle || in.Capture != rules.Empty {
						sp = append(sp, x)
					}
				}
				if len(sp) > 0 && t.Chance(1, 3) {
					m = sp[t.Choose(len(sp))]
				} else {
					m = legal[t.Choose(len(legal))]
				}
			}
			res.Tracef("move %s", m.UCI())
			in := cur.Describe(m)
			if in.Castle && g.Half() > 0 {
				res.Probe("castle-inside-no-progress")
			}
			if err := e.Move(ctx, m.UCI()); err != nil {
				res.Discarded = fmt.Sprintf("Engine.Move rejects legal move %s in %s: %v", m.UCI(), cur.FEN4(), err)
				return res
			}
			g.Moves = append(g.Moves, m)
			pushes++
			if !check("Move " + m.UCI()) {
				return res
			}
		case 1:
			s := Starts[t.Choose(len(Starts))]
			p, h, f := rules.MustFEN(s.FEN)
			if t.Chance(1, 2) {
				h, f = t.Choose(120), 1+t.Choose(250)
				res.Probe("reset-nontrivial-clocks")
			}
			fenText := p.FEN(h, f)
			res.Tracef("reset %q", fenText)
			if err := e.Reset(ctx, fenText); err != nil {
				res.Violate("C14", "decode-rejects-canonical", step, "Engine.Reset(%q): %v", fenText, err)
				return res
			}
			g = &rules.Game{Start: p, StartHalf: h, StartFull: f}
			if !check("Reset") {
				return res
			}
		case 2:
			res.Tracef("takeback")
			res.Fault("take-back")
			err := e.TakeBack(ctx)
			if len(g.Moves) == 0 {
				if err == nil {
					res.Discarded = "TakeBack with no move succeeded"
					return res
				}
			} else {
				if err != nil {
					res.Discarded = "TakeBack refused: " + err.Error()
					return res
				}
				if !cur.WhiteT {
					// we take back a White move -> nothing; taking back a Black move decrements the number
				} else {
					res.Probe("takeback-across-black-move")
				}
				g.Moves = g.Moves[:len(g.Moves)-1]
				backs++
			}
			if !check("TakeBack") {
				return res
			}
		}
	}
	res.Steps = step
	res.TraceHash = core.HashStrings(res.Trace)
	res.NonTrivial = pushes >= 3 && backs >= 1
	return res
}
