// Package worker is the test binary the parent ./check spawns. It is a test
// binary (not a main) because testing/synctest needs a *testing.T.
package worker

import (
	"bufio"
	"encoding/json"
	"fmt"
	"os"
	"runtime"
	"sort"
	"sync/atomic"
	"syscall"
	"testing"
	"time"

	"verif/sim/core"
	"verif/sim/racew"
	"verif/sim/run"
	"verif/sim/tape"
)

// Job is passed in env VERIF_JOB.
type Job struct {
	Thorough bool    `json:"thorough"` // deeper bounds per run (thorough tier)
	Prop     string  `json:"prop"`
	Mode     string  `json:"mode"` // gen | serve | selftest
	Seed     uint64  `json:"seed"`
	From     uint64  `json:"from"`
	To       uint64  `json:"to"`     // exclusive; 0 with Deadline>0 = until deadline
	Stride   uint64  `json:"stride"` // run indices From, From+Stride, ...
	Deadline float64 `json:"deadline_s"`
	Log      bool    `json:"log"` // print a digest line per run (determinism self-test)
	MaxViol  int     `json:"max_viol"`
}

type Found struct {
	Index uint64           `json:"index"`
	Seed  uint64           `json:"seed"`
	Tape  []uint32         `json:"tape"`
	V     []core.Violation `json:"violations"`
	Trace []string         `json:"trace"`
}

type Summary struct {
	Runs         int            `json:"runs"`
	Evals        int64          `json:"evals"`
	Steps        int64          `json:"steps"`
	SimNanos     int64          `json:"sim_nanos"`
	Probes       map[string]int `json:"probes"`
	Faults       map[string]int `json:"faults"`
	Inconclusive map[string]int `json:"inconclusive"`
	Discarded    int            `json:"discarded"`
	FirstDiscard string         `json:"first_discard,omitempty"`
	NonTrivial   []uint64       `json:"nontrivial_hashes"`
	Samples      [][]string     `json:"samples"`
	Found        []Found        `json:"found"`
	LastIndex    uint64         `json:"last_index"`
}

var out = bufio.NewWriterSize(os.Stdout, 1<<16)

// watchdog: a run that makes no progress for 60 s of real time is harness trouble (exit 3 with all stacks), never a verdict.
var beats atomic.Int64

// beat only bumps a counter: it may be called from inside a synctest bubble, where time.Now() is fake.
func beat() { beats.Add(1) }

func startWatchdog() {
	go func() { // outside any bubble: real time
		last, since := beats.Load(), time.Now()
		for {
			time.Sleep(2 * time.Second)
			if b := beats.Load(); b != last {
				last, since = b, time.Now()
				continue
			}
			if time.Since(since) > 90*time.Second {
				buf := make([]byte, 1<<22)
				n := runtime.Stack(buf, true)
				syscall.Write(2, []byte("WATCHDOG: no progress for 90s\n"))
				syscall.Write(2, buf[:n])
				fmt.Fprintf(os.Stdout, "@@ERR %q\n", "watchdog: a run made no progress for 90 s")
				os.Exit(3)
			}
		}
	}()
}

func emit(tag string, v any) {
	b, _ := json.Marshal(v)
	fmt.Fprintf(out, "@@%s %s\n", tag, b)
	out.Flush()
}

func TestWorker(t *testing.T) {
	raw := os.Getenv("VERIF_JOB")
	if raw == "" {
		t.Skip("no VERIF_JOB")
	}
	var job Job
	if err := json.Unmarshal([]byte(raw), &job); err != nil {
		emit("ERR", err.Error())
		os.Exit(2)
	}
	if err := run.SelfTest(); err != nil {
		emit("ERR", "self-test: "+err.Error())
		os.Exit(2)
	}
	if job.Mode == "selftest" {
		emit("OK", "selftest")
		return
	}
	core.Thorough = job.Thorough
	if job.Mode == "race" {
		raceMode(job)
		return
	}
	spec, err := run.Get(job.Prop)
	if err != nil {
		emit("ERR", err.Error())
		os.Exit(2)
	}
	if job.Mode == "describe" {
		emit("SPEC", spec)
		return
	}
	if n := os.Getenv("VERIF_TRACE_LOG"); n != "" {
		core.TraceSink, _ = os.OpenFile(n, os.O_WRONLY|os.O_CREATE|os.O_TRUNC, 0o644)
	}
	core.Beat = beat
	startWatchdog()
	exec := func(tp *tape.Tape) *core.RunResult {
		beat()
		if spec.NeedsBubble {
			return run.InBubble(t, spec, tp)
		}
		return spec.Run(tp)
	}
	switch job.Mode {
	case "serve":
		sc := bufio.NewScanner(os.Stdin)
		sc.Buffer(make([]byte, 1<<20), 1<<26)
		for sc.Scan() {
			var data []uint32
			if err := json.Unmarshal(sc.Bytes(), &data); err != nil {
				emit("ERR", err.Error())
				os.Exit(2)
			}
			emit("BEGIN", 0)
			res := exec(tape.Replay(data))
			emit("RES", res)
		}
	case "gen":
		sum := &Summary{Probes: map[string]int{}, Faults: map[string]int{}, Inconclusive: map[string]int{}}
		seen := map[uint64]bool{}
		start := time.Now()
		if job.Stride == 0 {
			job.Stride = 1
		}
		if job.MaxViol == 0 {
			job.MaxViol = 8
		}
		for i := job.From; job.To == 0 || i < job.To; i += job.Stride {
			if job.Deadline > 0 && time.Since(start).Seconds() > job.Deadline {
				break
			}
			rs := tape.Derive(job.Seed, job.Prop, i)
			if spec.CrashIsViolation || spec.NeedsBubble {
				fmt.Fprintf(out, "@@BEGIN %d\n", i)
				out.Flush()
			}
			tp := tape.New(rs)
			res := exec(tp)
			sum.Runs++
			sum.LastIndex = i
			sum.Steps += int64(res.Steps)
			sum.Evals += int64(res.Evals)
			sum.SimNanos += res.SimNanos
			for k, v := range res.Probes {
				sum.Probes[k] += v
			}
			for k, v := range res.Faults {
				sum.Faults[k] += v
			}
			for k, v := range res.Inconclusive {
				sum.Inconclusive[k] += v
			}
			if job.Log {
				fmt.Fprintf(out, "@@LOG %d %016x %s steps=%d v=%d\n", i, res.TraceHash, res.Digest, res.Steps, len(res.Violations))
				out.Flush()
			}
			if res.Discarded != "" {
				sum.Discarded++
				if sum.FirstDiscard == "" {
					sum.FirstDiscard = fmt.Sprintf("run %d: %s", i, res.Discarded)
				}
				continue
			}
			if res.NonTrivial && !seen[res.TraceHash] {
				seen[res.TraceHash] = true
				sum.NonTrivial = append(sum.NonTrivial, res.TraceHash)
				if len(sum.Samples) < 2 {
					tr := res.Trace
					if len(tr) > 60 {
						tr = append(append([]string{}, tr[:60]...), fmt.Sprintf("... (%d more)", len(res.Trace)-60))
					}
					sum.Samples = append(sum.Samples, tr)
				}
			}
			var mine []core.Violation
			for _, v := range res.Violations {
				if v.Prop == job.Prop {
					mine = append(mine, v)
				}
			}
			if len(mine) > 0 && len(sum.Found) < job.MaxViol {
				tr := res.Trace
				if len(tr) > 200 {
					tr = tr[len(tr)-200:]
				}
				sum.Found = append(sum.Found, Found{Index: i, Seed: rs, Tape: tp.Data(), V: mine, Trace: tr})
			}
		}
		sort.Slice(sum.NonTrivial, func(a, b int) bool { return sum.NonTrivial[a] < sum.NonTrivial[b] })
		emit("SUM", sum)
	default:
		emit("ERR", "bad mode")
		os.Exit(2)
	}
}

// raceMode runs the free-running workloads of a property for job.Deadline seconds (build with -race).
func raceMode(job Job) {
	start := time.Now()
	ops, rounds := 0, 0
	per := 300 * time.Millisecond
	for i := uint64(0); time.Since(start).Seconds() < job.Deadline; i++ {
		seed := int64(tape.Derive(job.Seed, job.Prop+"/race", job.From+i) >> 1)
		fmt.Fprintf(out, "@@BEGIN %d\n", job.From+i)
		out.Flush()
		switch job.Prop {
		case "C17":
			if i%2 == 0 {
				ops += racew.Table(seed, per)
			} else {
				ops += racew.Engine(seed, per, 0, 1, 0)
			}
		case "C16":
			if (i/4)%3 == 2 {
				ops += racew.UCIRounds(seed, per, int(i%4))
			} else {
				ops += racew.UCI(seed, per, int(i%4))
			}
		case "C04":
			ops += racew.UCIRounds(seed, per, int(i%4))
		case "C18":
			w := []int{2, 1, 0, 3}[i%4]
			if (i/4)%2 == 0 {
				ops += racew.Engine(seed, per, w, 0, 25)
			} else {
				ops += racew.EngineTwoClients(seed, per, w, 25)
			}
		}
		rounds++
	}
	emit("RACE", map[string]any{"ops": ops, "rounds": rounds})
}
