package worker

import (
	"flag"
	"os"
	"testing"
)

// glog (used by /repo through logw) would write log files into /tmp; send it to
// "stderr" and point os.Stderr at /dev/null. Runtime panic traces are written to
// file descriptor 2 directly and still reach the parent.
// keep the original *os.File reachable: otherwise its finalizer closes fd 2.
var realStderr = os.Stderr

func TestMain(m *testing.M) {
	flag.Set("logtostderr", "true")
	if f, err := os.OpenFile(os.DevNull, os.O_WRONLY, 0); err == nil {
		os.Stderr = f
	}
	os.Exit(m.Run())
}
