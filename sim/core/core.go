// Package core holds the types shared by the three simulators and the worker.
package core

import (
	"fmt"
	"hash/fnv"
	"os"
	"sort"
)

// Violation of one property, found in one run.
type Violation struct {
	Prop   string `json:"prop"`
	Kind   string `json:"kind"`   // stable class name, e.g. "hash-mismatch"
	Sig    string `json:"sig"`    // signature matched against known-findings (built from the minimised trace)
	Detail string `json:"detail"` // human readable
	Step   int    `json:"step"`
}

// RunResult is what one simulated run (one tape) reports.
type RunResult struct {
	// Runaway: during the free-running teardown (everything halted, the root context cancelled) a task of
	// the code under test passed 200000 hook points without ending; the kernel stopped it at this point.
	Runaway      string         `json:"runaway,omitempty"`
	Violations   []Violation    `json:"violations,omitempty"`
	Probes       map[string]int `json:"probes,omitempty"`       // "this condition was reached" counters
	Faults       map[string]int `json:"faults,omitempty"`       // fault kinds that actually fired
	Inconclusive map[string]int `json:"inconclusive,omitempty"` // budget exhaustion etc.
	Discarded    string         `json:"discarded,omitempty"`    // non-empty: run proves nothing (reason)
	Trace        []string       `json:"trace,omitempty"`        // decoded op / schedule trace
	Steps        int            `json:"steps"`
	Evals        int            `json:"evals"`       // fault points / cases evaluated inside this run (0 = the run is one case)
	SimNanos     int64          `json:"sim_nanos"`   // simulated time covered
	TraceHash    uint64         `json:"trace_hash"`  // hash of the (task,point)/op sequence
	StateHashes  []uint64       `json:"-"`           // distinct state digests reached
	NonTrivial   bool           `json:"non_trivial"` // by the property's stated rule
	Digest       string         `json:"digest"`      // final state digest for determinism diffs
}

func NewResult() *RunResult {
	return &RunResult{Probes: map[string]int{}, Faults: map[string]int{}, Inconclusive: map[string]int{}}
}

func (r *RunResult) Violate(prop, kind string, step int, format string, a ...any) {
	r.Violations = append(r.Violations, Violation{Prop: prop, Kind: kind, Step: step, Detail: fmt.Sprintf(format, a...)})
}

func (r *RunResult) Probe(name string) { r.Probes[name]++ }
func (r *RunResult) Fault(name string) { r.Faults[name]++ }

// Thorough selects the deeper per-run bounds of the thorough tier (larger reference budgets, longer
// sessions, more cancellation points); the quick tier uses the smaller ones. Set once by the worker.
var Thorough bool

// Scale returns q in the quick tier and t in the thorough tier.
func Scale(q, t int) int {
	if Thorough {
		return t
	}
	return q
}

// Beat tells the worker's watchdog that a long run is still making progress (set by the worker).
var Beat = func() {}

// TraceSink, when set (VERIF_TRACE_LOG), receives every trace line as it is produced, so that the
// decoded trace of a run that kills its process can still be put into the replay file.
var TraceSink *os.File

func (r *RunResult) Tracef(f string, a ...any) {
	l := fmt.Sprintf(f, a...)
	r.Trace = append(r.Trace, l)
	if TraceSink != nil {
		fmt.Fprintln(TraceSink, l)
	}
}
func (r *RunResult) Has(prop string) *Violation {
	for i := range r.Violations {
		if r.Violations[i].Prop == prop {
			return &r.Violations[i]
		}
	}
	return nil
}

func HashStrings(ss []string) uint64 {
	h := fnv.New64a()
	for _, s := range ss {
		h.Write([]byte(s))
		h.Write([]byte{0})
	}
	return h.Sum64()
}

func HashString(s string) uint64 {
	h := fnv.New64a()
	h.Write([]byte(s))
	return h.Sum64()
}

func SortedKeys(m map[string]int) []string {
	ks := make([]string, 0, len(m))
	for k := range m {
		ks = append(ks, k)
	}
	sort.Strings(ks)
	return ks
}
