// Package msearch is M-score and M-search: exhaustive negamax on the model game,
// no window, no table, no ordering, with scores as plain ordered numbers.
package msearch

import (
	"verif/sim/rules"
)

// Val is M-score. Class -1: being mated in Plies (0 = checkmated now); 0: heuristic H; +1: mating in Plies.
type Val struct {
	Class int8
	Plies int
	H     float32
}

const big = 1e9

// Key maps a value to the real line: lost < mated sooner < mated later < heuristics < mating later < mating sooner < won.
func (v Val) Key() float64 {
	switch v.Class {
	case -1:
		return -big + float64(v.Plies)
	case 1:
		return big - float64(v.Plies)
	}
	return float64(v.H)
}

func (v Val) Less(o Val) bool { return v.Key() < o.Key() }

// NegInc is "seen from the parent, one ply further away".
func (v Val) NegInc() Val {
	switch v.Class {
	case -1:
		return Val{Class: 1, Plies: v.Plies + 1}
	case 1:
		return Val{Class: -1, Plies: v.Plies + 1}
	}
	return Val{H: -v.H}
}

var Lost = Val{Class: -1}
var Zero = Val{}

type Config struct {
	Explore  func(p *rules.Pos, m rules.Move) bool // nil = every legal move
	Leaf     func(p *rules.Pos) float32
	Quiesce  bool
	QExplore func(p *rules.Pos, m rules.Move) bool
	Budget   int // node budget; exceeded -> Over
}

type Searcher struct {
	Config
	counts       map[rules.Pos]int
	Nodes        int
	QStalemates  int // stalemates met inside the quiescence search (reach probe)
	QMates       int // mates met inside the quiescence search
	Over         bool
	DrawMet      bool // a repetition or fifty-move draw was met inside the tree (C11's precondition)
	NoneExplored bool // probe: a node with legal moves none of which the exploration selects
	MateMixed    bool // probe: a node whose children are mated-in-k with >=2 distinct k
}

type node struct {
	p       rules.Pos
	half    int
	matLast bool // last move was a capture or under-promotion
}

// New prepares a searcher for the game (its history feeds repetition counts).
func New(g *rules.Game, cfg Config) (*Searcher, node) {
	s := &Searcher{Config: cfg, counts: map[rules.Pos]int{}}
	line := g.Line()
	for _, p := range line {
		s.counts[p]++
	}
	root := node{p: line[len(line)-1], half: g.Half()}
	return s, root
}

func child(n node, m rules.Move) node {
	in := n.p.Describe(m)
	c := node{p: n.p.Make(m), half: n.half + 1}
	if in.Piece == rules.Pawn || in.Capture != rules.Empty {
		c.half = 0
	}
	c.matLast = in.Capture != rules.Empty || (in.Promotion && m.Promo != rules.Queen)
	return c
}

// drawn tests C05's events at a node reached by a move inside the tree.
func (s *Searcher) drawn(n node) bool {
	if s.counts[n.p] >= 3 || n.half >= 100 {
		s.DrawMet = true
		return true
	}
	return n.matLast && n.p.InsufficientMaterial()
}

// Root returns the value of the root at the depth and the set of optimal first moves.
func (s *Searcher) Root(root node, depth int) (Val, []rules.Move, map[rules.Move]Val) {
	legal := root.p.LegalMoves()
	per := map[rules.Move]Val{}
	if len(legal) == 0 {
		if root.p.InCheck(root.p.WhiteT) {
			return Lost, nil, per
		}
		return Zero, nil, per
	}
	if depth == 0 {
		return s.leaf(root), nil, per
	}
	s.Nodes++
	first := true
	var best Val
	for _, m := range legal {
		if s.Explore != nil && !s.Explore(&root.p, m) {
			continue
		}
		c := child(root, m)
		s.counts[c.p]++
		v := s.value(c, depth-1).NegInc()
		s.counts[c.p]--
		per[m] = v
		if first || best.Less(v) {
			best, first = v, false
		}
	}
	if first {
		s.NoneExplored = true
		return Lost, nil, per
	}
	var opt []rules.Move
	for _, m := range legal {
		if v, ok := per[m]; ok && v.Key() == best.Key() {
			opt = append(opt, m)
		}
	}
	return best, opt, per
}

func (s *Searcher) value(n node, depth int) Val {
	if s.Over {
		return Zero
	}
	if s.drawn(n) {
		return Zero
	}
	if depth == 0 {
		return s.leaf(n)
	}
	s.Nodes++
	if s.Budget > 0 && s.Nodes > s.Budget {
		s.Over = true
		return Zero
	}
	legal := n.p.LegalMoves()
	if len(legal) == 0 {
		if n.p.InCheck(n.p.WhiteT) {
			return Lost
		}
		return Zero
	}
	first := true
	var best Val
	matedKs := map[int]bool{}
	for _, m := range legal {
		if s.Explore != nil && !s.Explore(&n.p, m) {
			continue
		}
		c := child(n, m)
		s.counts[c.p]++
		v := s.value(c, depth-1).NegInc()
		s.counts[c.p]--
		if v.Class == -1 {
			matedKs[v.Plies] = true
		}
		if first || best.Less(v) {
			best, first = v, false
		}
	}
	if len(matedKs) >= 2 && best.Class == -1 {
		s.MateMixed = true
	}
	if first {
		// Legal moves exist but the exploration selects none of them: the maximum over an empty set.
		// The side to move has nothing it is allowed to try: minus infinity, i.e. "lost" (not a real
		// mate, but it counts towards mate distances exactly like one on the way up).
		s.NoneExplored = true
		return Lost
	}
	return best
}

func (s *Searcher) leaf(n node) Val {
	if !s.Quiesce {
		s.Nodes++
		return Val{H: s.Leaf(&n.p)}
	}
	return s.quiet(n, true)
}

// quiet is M-quiescence: stand pat, maximum over the explored moves; mate and stalemate exact.
func (s *Searcher) quiet(n node, entry bool) Val {
	if s.Over {
		return Zero
	}
	if !entry && s.drawn(n) {
		return Zero
	}
	s.Nodes++
	if s.Budget > 0 && s.Nodes > s.Budget {
		s.Over = true
		return Zero
	}
	legal := n.p.LegalMoves()
	if len(legal) == 0 {
		if n.p.InCheck(n.p.WhiteT) {
			s.QMates++
			return Lost
		}
		s.QStalemates++
		return Zero
	}
	best := Val{H: s.Leaf(&n.p)}
	for _, m := range legal {
		if s.QExplore != nil && !s.QExplore(&n.p, m) {
			continue
		}
		c := child(n, m)
		s.counts[c.p]++
		v := s.quiet(c, false).NegInc()
		s.counts[c.p]--
		if best.Less(v) {
			best = v
		}
	}
	return best
}
