// check is the parent of every registered check: it rebuilds the worker test
// binary from /repo's working tree, fans seeded runs out over worker processes,
// minimises what they find, applies /verif/known-findings.txt, writes the
// evidence file and sets the exit code (0 held, 1 violation, 2 harness trouble).
// It does not import /repo.
package main

import (
	"bufio"
	"encoding/json"
	"flag"
	"fmt"
	"io"
	"os"
	"os/exec"
	"path/filepath"
	"regexp"
	"runtime"
	"sort"
	"strconv"
	"strings"
	"sync"
	"time"

	"verif/sim/tape"
)

// verifDir is /verif, or the snapshot a background run works in (VERIF_DIR).
var verifDir = func() string {
	if d := os.Getenv("VERIF_DIR"); d != "" {
		return d
	}
	return "/verif"
}()

type Violation struct {
	Prop   string `json:"prop"`
	Kind   string `json:"kind"`
	Sig    string `json:"sig"`
	Detail string `json:"detail"`
	Step   int    `json:"step"`
}

type RunResult struct {
	Violations   []Violation    `json:"violations"`
	Probes       map[string]int `json:"probes"`
	Faults       map[string]int `json:"faults"`
	Inconclusive map[string]int `json:"inconclusive"`
	Discarded    string         `json:"discarded"`
	Trace        []string       `json:"trace"`
	Steps        int            `json:"steps"`
	Digest       string         `json:"digest"`
	TraceHash    uint64         `json:"trace_hash"`
}

type Found struct {
	Index uint64      `json:"index"`
	Seed  uint64      `json:"seed"`
	Tape  []uint32    `json:"tape"`
	V     []Violation `json:"violations"`
	Trace []string    `json:"trace"`
}

type Summary struct {
	Runs         int            `json:"runs"`
	Evals        int64          `json:"evals"`
	Steps        int64          `json:"steps"`
	SimNanos     int64          `json:"sim_nanos"`
	Probes       map[string]int `json:"probes"`
	Faults       map[string]int `json:"faults"`
	Inconclusive map[string]int `json:"inconclusive"`
	Discarded    int            `json:"discarded"`
	FirstDiscard string         `json:"first_discard"`
	NonTrivial   []uint64       `json:"nontrivial_hashes"`
	Samples      [][]string     `json:"samples"`
	Found        []Found        `json:"found"`
	LastIndex    uint64         `json:"last_index"`
}

type Spec struct {
	Prop             string   `json:"prop"`
	QuickRuns        int      `json:"quick_runs"`
	ThoroughSeconds  int      `json:"thorough_seconds"`
	Level            string   `json:"level"`
	Rule             string   `json:"rule"`
	CrashIsViolation bool     `json:"crash_is_violation"`
	Real             []string `json:"real"`
	Stub             []string `json:"stub"`
	Assumptions      []string `json:"assumptions"`
	RaceTier         bool     `json:"race_tier"`
}

type Job struct {
	Thorough bool    `json:"thorough"`
	Prop     string  `json:"prop"`
	Mode     string  `json:"mode"`
	Seed     uint64  `json:"seed"`
	From     uint64  `json:"from"`
	To       uint64  `json:"to"`
	Stride   uint64  `json:"stride"`
	Deadline float64 `json:"deadline_s"`
	Log      bool    `json:"log"`
	MaxViol  int     `json:"max_viol"`
}

func goEnv() []string {
	env := os.Environ()
	env = append(env, "GOFLAGS=-mod=mod", "GOPROXY=off", "GOSUMDB=off", "GOTOOLCHAIN=local", "CGO_ENABLED=1")
	return env
}

func trouble(format string, a ...any) {
	fmt.Printf("HARNESS-TROUBLE: "+format+"\n", a...)
	os.Exit(2)
}

var workerBin = filepath.Join(verifDir, "bin", "worker.test")
var raceBin = filepath.Join(verifDir, "bin", "worker.race.test")
var thorough bool

func build(race bool) {
	args := []string{"test", "-c", "-tags", "verif", "-o", workerBin, "./worker"}
	if race {
		args = []string{"test", "-c", "-race", "-tags", "verif", "-o", raceBin, "./worker"}
	}
	os.MkdirAll(filepath.Join(verifDir, "bin"), 0o755)
	cmd := exec.Command("go1.26.8", args...)
	cmd.Dir = filepath.Join(verifDir, "sim")
	cmd.Env = goEnv()
	outb, err := cmd.CombinedOutput()
	if err != nil {
		fmt.Print(string(outb))
		trouble("building the worker from /repo's working tree failed: %v", err)
	}
}

// runWorker runs one worker job to completion and hands back its tagged lines.
type workerOut struct {
	sum       *Summary
	spec      *Spec
	lastBegin int64
	crashed   bool
	stderr    string
	errLine   string
	logs      []string
}

func runWorker(bin string, job Job, extraEnv ...string) workerOut {
	jb, _ := json.Marshal(job)
	cmd := exec.Command(bin, "-test.run", "^TestWorker$", "-test.timeout", "0")
	cmd.Env = append(append(os.Environ(), "VERIF_JOB="+string(jb)), extraEnv...)
	stdout, _ := cmd.StdoutPipe()
	var errb strings.Builder
	cmd.Stderr = &errb
	wo := workerOut{lastBegin: -1}
	if err := cmd.Start(); err != nil {
		trouble("cannot start worker: %v", err)
	}
	rd := bufio.NewReaderSize(stdout, 1<<20)
	var tail []string
	for {
		line, err := rd.ReadString('\n')
		if len(line) > 0 {
			line = strings.TrimRight(line, "\n")
			switch {
			case strings.HasPrefix(line, "@@BEGIN "):
				n, _ := strconv.ParseInt(line[8:], 10, 64)
				wo.lastBegin = n
			case strings.HasPrefix(line, "@@SUM "):
				var s Summary
				if e := json.Unmarshal([]byte(line[6:]), &s); e != nil {
					trouble("bad worker summary: %v", e)
				}
				wo.sum = &s
			case strings.HasPrefix(line, "@@SPEC "):
				var s Spec
				json.Unmarshal([]byte(line[7:]), &s)
				wo.spec = &s
			case strings.HasPrefix(line, "@@ERR "):
				wo.errLine = line[6:]
			case strings.HasPrefix(line, "@@LOG "):
				wo.logs = append(wo.logs, line[6:])
			default:
				tail = append(tail, line)
				if len(tail) > 60 {
					tail = tail[1:]
				}
			}
		}
		if err != nil {
			break
		}
	}
	err := cmd.Wait()
	wo.stderr = errb.String() + strings.Join(tail, "\n")
	if err != nil && wo.sum == nil {
		wo.crashed = true
	}
	return wo
}

// server is a long-lived worker answering replay requests (used for shrinking and --replay).
type server struct {
	bin  string
	prop string
	cmd  *exec.Cmd
	in   io.WriteCloser
	rd   *bufio.Reader
	errb *strings.Builder
}

func (s *server) start() {
	jb, _ := json.Marshal(Job{Thorough: thorough, Prop: s.prop, Mode: "serve"})
	s.cmd = exec.Command(s.bin, "-test.run", "^TestWorker$", "-test.timeout", "0")
	s.cmd.Env = append(os.Environ(), "VERIF_JOB="+string(jb))
	s.in, _ = s.cmd.StdinPipe()
	so, _ := s.cmd.StdoutPipe()
	s.errb = &strings.Builder{}
	s.cmd.Stderr = s.errb
	s.rd = bufio.NewReaderSize(so, 1<<20)
	if err := s.cmd.Start(); err != nil {
		trouble("cannot start replay worker: %v", err)
	}
}

func (s *server) stop() {
	if s.cmd != nil {
		s.in.Close()
		s.cmd.Process.Kill()
		s.cmd.Wait()
		s.cmd = nil
	}
}

// replay runs one tape; crashed=true if the worker process died while running it.
func (s *server) replay(data []uint32) (res *RunResult, crashed bool, crashText string) {
	if s.cmd == nil {
		s.start()
	}
	b, _ := json.Marshal(data)
	if data == nil {
		b = []byte("[]")
	}
	done := make(chan struct{})
	var timedOut bool
	go func() {
		select {
		case <-done:
		case <-time.After(150 * time.Second):
			timedOut = true
			s.cmd.Process.Kill()
		}
	}()
	fmt.Fprintf(s.in, "%s\n", b)
	var tail []string
	for {
		line, err := s.rd.ReadString('\n')
		if strings.HasPrefix(line, "@@RES ") {
			var r RunResult
			if e := json.Unmarshal([]byte(strings.TrimSpace(line[6:])), &r); e != nil {
				trouble("bad replay result: %v", e)
			}
			close(done)
			return &r, false, ""
		}
		if strings.HasPrefix(line, "@@ERR ") && !strings.Contains(line, "watchdog") {
			trouble("replay worker: %s", line)
		} // a watchdog exit is handled like a crash below: the stacks on stderr say whose fault it is
		if len(line) > 0 && !strings.HasPrefix(line, "@@") {
			tail = append(tail, strings.TrimRight(line, "\n"))
			if len(tail) > 40 {
				tail = tail[1:]
			}
		}
		if err != nil {
			close(done)
			s.cmd.Wait()
			txt := s.errb.String() + "\n" + strings.Join(tail, "\n")
			s.cmd = nil
			if timedOut {
				trouble("replay worker made no progress for 120 s (watchdog)\n%s", txt)
			}
			return nil, true, txt
		}
	}
}

type finding struct {
	fixed bool
	prop  string
	kind  string
	match *regexp.Regexp
	raw   string
}

func loadFindings() []finding {
	var out []finding
	b, err := os.ReadFile(filepath.Join(verifDir, "known-findings.txt"))
	if err != nil {
		return nil
	}
	for _, line := range strings.Split(string(b), "\n") {
		line = strings.TrimSpace(line)
		if line == "" || strings.HasPrefix(line, "#") {
			continue
		}
		f := finding{raw: line}
		switch {
		case strings.HasPrefix(line, "finding:"):
			rest := strings.TrimSpace(line[len("finding:"):])
			// property=<id> kind=<kind> match=<regexp to end of line>
			if i := strings.Index(rest, " match="); i >= 0 {
				re, err := regexp.Compile(rest[i+7:])
				if err != nil {
					trouble("known-findings.txt: bad regexp in %q: %v", line, err)
				}
				f.match = re
				rest = rest[:i]
			}
			for _, tok := range strings.Fields(rest) {
				if strings.HasPrefix(tok, "property=") {
					f.prop = tok[9:]
				}
				if strings.HasPrefix(tok, "kind=") {
					f.kind = tok[5:]
				}
			}
			if f.prop == "" || f.kind == "" {
				trouble("known-findings.txt: need property= and kind= in %q", line)
			}
			out = append(out, f)
		case strings.HasPrefix(line, "fixed:"):
			f.fixed = true
			out = append(out, f)
		}
	}
	return out
}

// codeMutexDeadlock: the watchdog dump shows a goroutine of the code under test waiting for a
// sync.Mutex inside the bubble (which can never become "durably blocked", so the simulator cannot
// step on). Returns the innermost morlock frame of that goroutine.
func codeMutexDeadlock(text string) (string, bool) {
	if !strings.Contains(text, "WATCHDOG") {
		return "", false
	}
	for _, blk := range strings.Split(text, "\n\n") {
		if !strings.Contains(blk, "synctest bubble") || !strings.Contains(blk, "sync.(*Mutex).Lock") {
			continue
		}
		for _, l := range strings.Split(blk, "\n") {
			t := strings.TrimSpace(l)
			if strings.HasPrefix(t, "github.com/herohde/morlock/") {
				if i := strings.Index(t, "("); i > 0 {
					t = t[:i]
				}
				return t, true
			}
		}
	}
	return "", false
}

func crashKind(text string) (string, string) {
	// classify a dead worker by the panic message / race report, stable across runs
	for _, l := range strings.Split(text, "\n") {
		l = strings.TrimSpace(l)
		if strings.HasPrefix(l, "panic: ") {
			msg := l[7:]
			if i := strings.Index(msg, " [recovered]"); i >= 0 {
				msg = msg[:i]
			}
			return "crash", msg
		}
		if strings.HasPrefix(l, "fatal error: ") {
			return "crash", l
		}
	}
	return "crash", "worker process died"
}

func main() {
	tier := flag.String("tier", os.Getenv("VERIF_TIER"), "quick|thorough")
	replay := flag.String("replay", "", "replay file")
	runsFlag := flag.Int("runs", 0, "override number of runs")
	budget := flag.Int("budget", 0, "override thorough wall budget (s)")
	workers := flag.Int("workers", 0, "worker processes")
	noShrink := flag.Bool("no-shrink", false, "skip minimisation")
	detLog := flag.String("detlog", "", "write per-run digests (determinism self-test)")
	// allow "check C07 --tier quick": move the positional id to the end for the flag package
	args := os.Args[1:]
	var prop string
	var rest []string
	for i := 0; i < len(args); i++ {
		if !strings.HasPrefix(args[i], "-") && prop == "" {
			prop = args[i]
			continue
		}
		rest = append(rest, args[i])
	}
	flag.CommandLine.Parse(rest)
	if prop == "" {
		fmt.Println("usage: check <property id> [--tier quick|thorough] [--replay file]")
		os.Exit(2)
	}
	if *tier == "" {
		*tier = "quick"
	}
	if *tier != "quick" && *tier != "thorough" {
		trouble("unknown tier %q", *tier)
	}
	seed := uint64(1)
	if s := os.Getenv("VERIF_SEED"); s != "" {
		v, err := strconv.ParseInt(s, 10, 64)
		if err != nil {
			trouble("VERIF_SEED=%q is not an integer", s)
		}
		seed = uint64(v)
	}
	if *workers == 0 {
		*workers = min(16, runtime.NumCPU())
	}
	start := time.Now()
	thorough = *tier == "thorough"
	fmt.Printf("check %s tier=%s VERIF_SEED=%d\n", prop, *tier, int64(seed))

	build(false)
	desc := runWorker(workerBin, Job{Prop: prop, Mode: "describe"})
	if desc.errLine != "" || desc.spec == nil {
		trouble("worker refused %s: %s %s", prop, desc.errLine, desc.stderr)
	}
	spec := desc.spec

	srv := &server{bin: workerBin, prop: prop}
	defer srv.stop()

	if *replay != "" {
		os.Exit(doReplay(srv, prop, *replay))
	}

	// ---- fan out ----
	nRuns := uint64(spec.QuickRuns)
	deadline := 0.0
	if *tier == "thorough" {
		nRuns = 0
		deadline = float64(spec.ThoroughSeconds)
		if *budget > 0 {
			deadline = float64(*budget)
		}
	}
	if *runsFlag > 0 {
		nRuns, deadline = uint64(*runsFlag), 0
	}
	W := uint64(*workers)
	if nRuns > 0 && nRuns < W {
		W = nRuns
	}
	total := &Summary{Probes: map[string]int{}, Faults: map[string]int{}, Inconclusive: map[string]int{}}
	nontriv := map[uint64]bool{}
	var mu sync.Mutex
	var wg sync.WaitGroup
	var crashes []Found
	var logs []string
	for w := uint64(0); w < W; w++ {
		wg.Add(1)
		go func(w uint64) {
			defer wg.Done()
			from := w
			remaining := deadline
			t0 := time.Now()
			for {
				job := Job{Thorough: thorough, Prop: prop, Mode: "gen", Seed: seed, From: from, To: nRuns, Stride: W, Deadline: remaining, Log: *detLog != ""}
				wo := runWorker(workerBin, job)
				mu.Lock()
				if wo.errLine != "" {
					mu.Unlock()
					if strings.Contains(wo.errLine, "watchdog") {
						if fr, ok := codeMutexDeadlock(wo.stderr); ok {
							// Engine.mu (engine.lock hooks) and handle.mu (simhook.Locking/Unlocked hooks) are tracked by the kernel, which
							// never lets a task wait inside Lock and reports a deadlock on them itself, replayably. A
							// goroutine found inside sync.Mutex.Lock therefore waits for a mutex the simulator does not
							// know (a new one, or a new Engine.mu section without the hook) whose holder it has parked:
							// that says nothing about the code under test.
							trouble("worker: %s\na goroutine of the code under test waits inside sync.Mutex.Lock (%s) for a mutex the simulator does not track: put simhook.Locking/Unlocked (for Engine.mu: the engine.lock / engine.unlocked hooks) around the new section. %s\n%s", wo.errLine, fr, strings.Join(lockDiscipline(), "; "), strings.Join(tailLines(wo.stderr, 60), "\n"))
						}
						trouble("worker: %s\n%s", wo.errLine, strings.Join(tailLines(wo.stderr, 60), "\n"))
					}
					trouble("worker: %s", wo.errLine)
				}
				logs = append(logs, wo.logs...)
				if wo.sum != nil {
					merge(total, wo.sum, nontriv)
					mu.Unlock()
					return
				}
				// worker died
				if wo.lastBegin < 0 {
					mu.Unlock()
					trouble("worker died before its first run:\n%s", wo.stderr)
				}
				k, msg := crashKind(wo.stderr)
				crashes = append(crashes, Found{Index: uint64(wo.lastBegin), Seed: tape.Derive(seed, prop, uint64(wo.lastBegin)),
					V: []Violation{{Prop: prop, Kind: k, Detail: msg}}, Trace: tailLines(wo.stderr, 40)})
				total.Runs += int((uint64(wo.lastBegin)-from)/W) + 1
				mu.Unlock()
				from = uint64(wo.lastBegin) + W
				if nRuns > 0 && from >= nRuns {
					return
				}
				if deadline > 0 {
					remaining = deadline - time.Since(t0).Seconds()
					if remaining <= 0 {
						return
					}
				}
				if len(crashes) > 40 {
					return
				}
			}
		}(w)
	}
	wg.Wait()

	if *detLog != "" {
		sort.Strings(logs)
		os.WriteFile(*detLog, []byte(strings.Join(logs, "\n")+"\n"), 0o644)
	}

	// ---- crashes: recover the tape of the crashed run ----
	crashDiscarded := 0
	sort.Slice(crashes, func(a, b int) bool { return crashes[a].Index < crashes[b].Index })
	tapeDone := map[string]bool{}
	for i := range crashes {
		c := &crashes[i]
		if !spec.CrashIsViolation {
			crashDiscarded++
			continue
		}
		// only the earliest crash of each kind is minimised and reported: recover only its tape
		if k := c.V[0].Kind; !tapeDone[k] {
			tapeDone[k] = true
			c.Tape = recoverTape(prop, seed, c.Index)
		}
	}
	if spec.CrashIsViolation {
		total.Found = append(total.Found, crashes...)
	}

	// ---- group, minimise, classify ----
	known := loadFindings()
	sort.Slice(total.Found, func(a, b int) bool { return total.Found[a].Index < total.Found[b].Index })
	type group struct {
		kind  string
		first Found
		count int
	}
	groups := map[string]*group{}
	var order []string
	for _, f := range total.Found {
		k := f.V[0].Kind
		if g, ok := groups[k]; ok {
			g.count++
			continue
		}
		groups[k] = &group{kind: k, first: f, count: 1}
		order = append(order, k)
	}
	os.MkdirAll(filepath.Join(verifDir, "replays"), 0o755)
	exit := 0
	nViol := 0
	var knownHit []string
	var reports []map[string]any
	for _, k := range order {
		g := groups[k]
		min := g.first.Tape
		var minRes *RunResult
		var minV Violation = g.first.V[0]
		shrinkRuns := 0
		reproduced := false
		if len(min) > 0 || g.first.Tape != nil {
			test := func(data []uint32) (bool, *RunResult, Violation) {
				r, crashed, txt := srv.replay(data)
				if crashed {
					ck, msg := crashKind(txt)
					return ck == k && spec.CrashIsViolation, &RunResult{Trace: tailLines(txt, 30)}, Violation{Prop: prop, Kind: ck, Detail: msg}
				}
				for _, v := range r.Violations {
					if v.Prop == prop && v.Kind == k {
						return true, r, v
					}
				}
				return false, r, Violation{}
			}
			// A change that breaks the code's own synchronisation makes the code under test race for real:
			// the same tape may then take different courses. Try a few times before giving up.
			ok, r, v := test(min)
			for try := 0; !ok && try < 4; try++ {
				ok, r, v = test(min)
			}
			if ok {
				reproduced = true
				minRes, minV = r, v
				if !*noShrink && k != "mutex-deadlock" {
					budgetD := 45 * time.Second
					if *tier == "thorough" {
						budgetD = 120 * time.Second
					}
					best, n := tape.Shrink(min, func(d []uint32) bool {
						ok, r, v := test(d)
						if ok {
							minRes, minV = r, v
						}
						return ok
					}, budgetD, 3000)
					shrinkRuns = n
					min = best
					// final confirmation in a fresh process
					srv.stop()
					confirmed := false
					for try := 0; try < 5 && !confirmed; try++ {
						if ok, r, v := test(min); ok {
							minRes, minV, confirmed = r, v, true
						}
					}
					if !confirmed {
						// fall back to the unminimised tape, which did reproduce
						for try := 0; try < 5 && !confirmed; try++ {
							if ok, r, v := test(g.first.Tape); ok {
								min, minRes, minV, confirmed = g.first.Tape, r, v, true
							}
						}
					}
					if confirmed {
					} else {
						jb, _ := json.Marshal(map[string]any{"property": prop, "kind": k, "tape": min})
						np := filepath.Join(verifDir, "replays", fmt.Sprintf("NONDET-%s-%s.json", prop, sanitize(k)))
						os.WriteFile(np, jb, 0o644)
						trouble("minimised tape of %s/%s does not reproduce in a fresh process (non-determinism in the harness); tape saved to %s", prop, k, np)
					}
				}
			}
		}
		if !reproduced {
			if k == "crash" && spec.CrashIsViolation && !harnessFrames(g.first.Trace) {
				// The worker died with a panic raised in the code under test: that observation stands even if
				// the tape takes another course on replay (code whose own synchronisation is broken races for
				// real, and no scheduler can pin that down). Reported with the unminimised tape and a note.
				minRes = &RunResult{Trace: g.first.Trace}
				minV = g.first.V[0]
				minV.Detail += " [observed in run " + fmt.Sprint(g.first.Index) + "; 5 replays of its tape took another course: the code under test races]"
			} else if exit == 1 {
				fmt.Printf("note: run %d reported %s (%s) but 5 replays of its tape took another course; not reported (another violation of this run batch is)\n", g.first.Index, k, oneLine(g.first.V[0].Detail))
				continue
			} else {
				// a violation that does not replay is harness trouble, never a verdict
				trouble("run %d of %s reported %s (%s) but replaying its tape does not reproduce it", g.first.Index, prop, k, g.first.V[0].Detail)
			}
		}
		path := filepath.Join(verifDir, "replays", fmt.Sprintf("%s-%s-%d.json", prop, sanitize(k), g.first.Index))
		var crashReport []string
		if k == "crash" || k == "mutex-deadlock" {
			// the process died: fetch the decoded trace up to the crash through the trace side file
			crashReport = minRes.Trace
			minRes = &RunResult{Trace: traceOfCrash(prop, min)}
		}
		rep := map[string]any{
			"property": prop, "kind": k, "detail": minV.Detail, "verif_seed": int64(seed), "run_index": g.first.Index,
			"run_seed": g.first.Seed, "tape": min, "original_tape_len": len(g.first.Tape), "shrink_runs": shrinkRuns,
			"trace": minRes.Trace, "occurrences_in_batch": g.count,
		}
		if crashReport != nil {
			rep["crash_report"] = crashReport
		}
		jb, _ := json.MarshalIndent(rep, "", " ")
		os.WriteFile(path, jb, 0o644)
		reports = append(reports, map[string]any{"kind": k, "detail": minV.Detail, "replay": path, "count": g.count})
		// known finding?
		hit := ""
		for _, f := range known {
			if f.fixed || f.prop != prop || f.kind != k {
				continue
			}
			text := minV.Detail + "\n" + strings.Join(minRes.Trace, "\n")
			if f.match == nil || f.match.MatchString(text) {
				hit = f.raw
				break
			}
		}
		if hit != "" {
			fmt.Printf("KNOWN-FINDING: property=%s kind=%s %s (replay=%s)\n", prop, k, oneLine(minV.Detail), path)
			knownHit = append(knownHit, k)
			continue
		}
		nViol += g.count
		exit = 1
		fmt.Printf("violation kind=%s runs=%d first_run=%d: %s\n", k, g.count, g.first.Index, oneLine(minV.Detail))
		for _, l := range minRes.Trace {
			fmt.Printf("    %s\n", l)
		}
		fmt.Printf("VIOLATION property=%s replay=%s\n", prop, path)
	}

	// ---- free-running -race tier (runtime monitoring; DESIGN.md 2.7) ----
	raceInfo := map[string]any{"ran": false}
	if spec.RaceTier {
		build(true)
		budget := 10.0
		if *tier == "thorough" {
			budget = 180
		}
		rr := runRace(prop, seed, 0, budget)
		raceInfo = map[string]any{"ran": true, "seconds": budget, "ops": rr.ops, "rounds": rr.rounds, "reports": 0, "note": "real goroutines under the race detector, seeded workload, unseeded schedule: monitoring, not simulation; a report is a true positive, silence proves nothing"}
		if rr.trouble != "" {
			trouble("race tier: %s", rr.trouble)
		}
		if rr.report != "" {
			raceInfo["reports"] = 1
			kind := "data-race"
			if rr.panicMsg != "" {
				kind = "crash"
				if strings.HasPrefix(rr.panicMsg, "DEADLOCK") {
					kind = "deadlock"
				}
				if strings.HasPrefix(rr.panicMsg, "ORACLE[") {
					// an oracle of the free-running workload: the violation kind is in the message
					if j := strings.IndexByte(rr.panicMsg, ']'); j > 7 {
						kind = rr.panicMsg[7:j]
					}
				}
			}
			path := filepath.Join(verifDir, "replays", fmt.Sprintf("%s-%s-race-%d.json", prop, kind, rr.index))
			jb, _ := json.MarshalIndent(map[string]any{"property": prop, "kind": kind, "mode": "race", "verif_seed": int64(seed), "race_index": rr.index, "detail": rr.sig, "report": strings.Split(rr.report, "\n")}, "", " ")
			os.WriteFile(path, jb, 0o644)
			hit := ""
			for _, f := range known {
				if !f.fixed && f.prop == prop && f.kind == kind && (f.match == nil || f.match.MatchString(rr.sig+"\n"+rr.report)) {
					hit = f.raw
				}
			}
			reports = append(reports, map[string]any{"kind": kind, "detail": rr.sig, "replay": path, "count": 1})
			if hit != "" {
				fmt.Printf("KNOWN-FINDING: property=%s kind=%s %s (replay=%s)\n", prop, kind, oneLine(rr.sig), path)
				knownHit = append(knownHit, kind)
			} else {
				nViol++
				exit = 1
				fmt.Printf("violation kind=%s (free-running -race tier, workload %d): %s\n", kind, rr.index, rr.sig)
				for _, l := range tailLines(rr.report, 60) {
					fmt.Printf("    %s\n", l)
				}
				fmt.Printf("VIOLATION property=%s replay=%s\n", prop, path)
			}
		}
	}

	// ---- evidence ----
	wall := time.Since(start).Seconds()
	samples := []any{}
	for _, s := range total.Samples {
		samples = append(samples, s)
		if len(samples) >= 3 {
			break
		}
	}
	if len(samples) == 0 {
		samples = append(samples, "no non-trivial run in this batch")
	}
	evaluations := int64(total.Runs)
	if total.Evals > 0 {
		evaluations = total.Evals // fault points evaluated inside the runs (each a complete halted search + follow-ups)
	}
	cov := map[string]any{
		"evaluations":         evaluations,
		"runs":                total.Runs,
		"distinct_nontrivial": len(nontriv),
		"rule":                spec.Rule,
		"samples":             samples,
		"exhaustive":          false,
		"steps":               total.Steps,
		"runs_per_hour":       int(float64(total.Runs) / wall * 3600),
		"simulated_seconds":   float64(total.SimNanos) / 1e9,
		"faults_fired":        total.Faults,
		"probes":              total.Probes,
		"inconclusive":        total.Inconclusive,
		"discarded_runs":      total.Discarded + crashDiscarded,
		"first_discard":       total.FirstDiscard,
		"real_components":     spec.Real,
		"stubbed_components":  spec.Stub,
		"workers":             W,
		"violation_reports":   orEmpty(reports),
		"wiring_drift":        wiringDrift(),
		"race_tier":           raceInfo,
		"known_findings_hit":  orEmptyS(knownHit),
		"technique":           "deterministic simulation: seeded tape -> operation/schedule/fault sequence, oracle evaluated per step, delta-debugged replay files",
	}
	if spec.Assumptions == nil {
		spec.Assumptions = []string{}
	}
	ev := map[string]any{
		"property_id": prop, "tier": *tier, "seed": int64(seed), "level": spec.Level, "coverage": cov,
		"assumptions": spec.Assumptions, "wall_s": wall, "violations": nViol,
	}
	os.MkdirAll(filepath.Join(verifDir, "evidence"), 0o755)
	eb, _ := json.MarshalIndent(ev, "", " ")
	if err := os.WriteFile(filepath.Join(verifDir, "evidence", prop+".json"), eb, 0o644); err != nil {
		trouble("cannot write evidence: %v", err)
	}
	fmt.Printf("%s: runs=%d distinct_nontrivial=%d discarded=%d steps=%d faults=%v wall=%.1fs exit=%d\n", prop, total.Runs, len(nontriv), total.Discarded+crashDiscarded, total.Steps, total.Faults, wall, exit)
	srv.stop()
	os.Exit(exit)
}

func merge(t, s *Summary, nontriv map[uint64]bool) {
	t.Runs += s.Runs
	t.Evals += s.Evals
	t.Steps += s.Steps
	t.SimNanos += s.SimNanos
	for k, v := range s.Probes {
		t.Probes[k] += v
	}
	for k, v := range s.Faults {
		t.Faults[k] += v
	}
	for k, v := range s.Inconclusive {
		t.Inconclusive[k] += v
	}
	t.Discarded += s.Discarded
	if t.FirstDiscard == "" {
		t.FirstDiscard = s.FirstDiscard
	}
	for _, h := range s.NonTrivial {
		nontriv[h] = true
	}
	if len(t.Samples) < 3 {
		t.Samples = append(t.Samples, s.Samples...)
	}
	t.Found = append(t.Found, s.Found...)
}

func recoverTape(prop string, seed, index uint64) []uint32 {
	f, err := os.CreateTemp(filepath.Join(verifDir, "bin"), "tape-*.log")
	if err != nil {
		return nil
	}
	name := f.Name()
	f.Close()
	defer os.Remove(name)
	runWorker(workerBin, Job{Thorough: thorough, Prop: prop, Mode: "gen", Seed: seed, From: index, To: index + 1, Stride: 1}, "VERIF_TAPE_LOG="+name)
	b, _ := os.ReadFile(name)
	var out []uint32
	for _, l := range strings.Fields(string(b)) {
		v, _ := strconv.ParseUint(l, 10, 32)
		out = append(out, uint32(v))
	}
	if out == nil {
		out = []uint32{}
	}
	return out
}

func doReplay(srv *server, prop, path string) int {
	b, err := os.ReadFile(path)
	if err != nil {
		trouble("cannot read replay file: %v", err)
	}
	var rep struct {
		Property string   `json:"property"`
		Kind     string   `json:"kind"`
		Tape     []uint32 `json:"tape"`
	}
	if err := json.Unmarshal(b, &rep); err != nil {
		trouble("bad replay file: %v", err)
	}
	r, crashed, txt := srv.replay(rep.Tape)
	if crashed {
		k, msg := crashKind(txt)
		fmt.Printf("replay: worker died: %s: %s\n%s\n", k, msg, strings.Join(tailLines(txt, 30), "\n"))
		fmt.Printf("VIOLATION property=%s replay=%s\n", prop, path)
		return 1
	}
	for _, l := range r.Trace {
		fmt.Println("   ", l)
	}
	code := 0
	for _, v := range r.Violations {
		if v.Prop == prop {
			fmt.Printf("violation kind=%s step=%d: %s\n", v.Kind, v.Step, v.Detail)
			code = 1
		}
	}
	if code == 1 {
		fmt.Printf("VIOLATION property=%s replay=%s\n", prop, path)
	} else {
		fmt.Printf("replay of %s: no violation of %s on this tree\n", path, prop)
	}
	return code
}

func tailLines(s string, n int) []string {
	ls := strings.Split(strings.TrimRight(s, "\n"), "\n")
	if len(ls) > n {
		ls = ls[len(ls)-n:]
	}
	return ls
}

func oneLine(s string) string {
	s = strings.ReplaceAll(s, "\n", " | ")
	if len(s) > 400 {
		s = s[:400] + "..."
	}
	return s
}

func sanitize(s string) string {
	return regexp.MustCompile(`[^A-Za-z0-9_-]+`).ReplaceAllString(s, "_")
}

type raceResult struct {
	ops, rounds int
	report      string // race report or panic text ("" = clean)
	sig         string
	panicMsg    string
	index       int64
	trouble     string
}

// runRace runs the free-running workloads of prop under the race detector for the given budget.
func runRace(prop string, seed uint64, from uint64, budget float64) raceResult {
	jb, _ := json.Marshal(Job{Prop: prop, Mode: "race", Seed: seed, From: from, Deadline: budget})
	cmd := exec.Command(raceBin, "-test.run", "^TestWorker$", "-test.timeout", "0")
	cmd.Env = append(os.Environ(), "VERIF_JOB="+string(jb), "GORACE=halt_on_error=1 exitcode=66")
	var outb, errb strings.Builder
	cmd.Stdout, cmd.Stderr = &outb, &errb
	if e := cmd.Start(); e != nil {
		return raceResult{trouble: e.Error()}
	}
	waitDone := make(chan error, 1)
	go func() { waitDone <- cmd.Wait() }()
	var err error
	select {
	case err = <-waitDone:
	case <-time.After(time.Duration(budget+120) * time.Second):
		cmd.Process.Kill()
		<-waitDone
		return raceResult{trouble: "the free-running tier did not finish within its budget + 120 s"}
	}
	res := raceResult{index: -1}
	for _, l := range strings.Split(outb.String(), "\n") {
		if strings.HasPrefix(l, "@@BEGIN ") {
			res.index, _ = strconv.ParseInt(l[8:], 10, 64)
		}
		if strings.HasPrefix(l, "@@RACE ") {
			var m struct{ Ops, Rounds int }
			json.Unmarshal([]byte(l[7:]), &m)
			res.ops, res.rounds = m.Ops, m.Rounds
		}
	}
	text := errb.String()
	if i := strings.Index(text, "WARNING: DATA RACE"); i >= 0 {
		res.report = text[i:]
		// signature: the two racing accesses (function and file:line), stable across runs
		var fr []string
		ls := strings.Split(res.report, "\n")
		for j, l := range ls {
			t := strings.TrimSpace(l)
			if (strings.HasPrefix(t, "Read at") || strings.HasPrefix(t, "Write at") || strings.HasPrefix(t, "Previous read at") || strings.HasPrefix(t, "Previous write at") || strings.HasPrefix(t, "Atomic") || strings.HasPrefix(t, "Previous atomic")) && j+2 < len(ls) {
				loc := strings.TrimSpace(ls[j+2])
				if k := strings.Index(loc, " +0x"); k >= 0 {
					loc = loc[:k]
				}
				fr = append(fr, strings.Fields(t)[0]+" "+strings.TrimSpace(ls[j+1])+" "+loc)
			}
		}
		res.sig = "data race: " + strings.Join(fr, " <-> ")
		return res
	}
	if err != nil {
		if _, msg := crashKind(text); strings.Contains(text, "panic:") || strings.Contains(text, "fatal error") {
			res.report, res.panicMsg, res.sig = strings.Join(tailLines(text, 40), "\n"), msg, "panic in the free-running tier: "+msg
			return res
		}
		res.trouble = fmt.Sprintf("race worker failed: %v\n%s", err, strings.Join(tailLines(text, 20), "\n"))
	}
	return res
}

// traceOfCrash replays a tape that kills the worker and returns the trace written up to the crash.
func traceOfCrash(prop string, data []uint32) []string {
	f, err := os.CreateTemp(filepath.Join(verifDir, "bin"), "trace-*.log")
	if err != nil {
		return nil
	}
	name := f.Name()
	f.Close()
	defer os.Remove(name)
	jb, _ := json.Marshal(Job{Thorough: thorough, Prop: prop, Mode: "serve"})
	cmd := exec.Command(workerBin, "-test.run", "^TestWorker$", "-test.timeout", "0")
	cmd.Env = append(os.Environ(), "VERIF_JOB="+string(jb), "VERIF_TRACE_LOG="+name)
	b, _ := json.Marshal(data)
	cmd.Stdin = strings.NewReader(string(b) + "\n")
	cmd.Run()
	out, _ := os.ReadFile(name)
	return tailLines(string(out), 400)
}

// harnessFrames: the panic was raised by simulator code (verif/sim/...), not by the code under test.
func harnessFrames(stack []string) bool {
	for _, l := range stack {
		t := strings.TrimSpace(l)
		if strings.HasPrefix(t, "panic(") || strings.HasPrefix(t, "runtime.") || strings.HasPrefix(t, "/") || strings.HasPrefix(t, "goroutine ") || strings.HasPrefix(t, "panic:") || t == "" || strings.HasPrefix(t, "[signal") {
			continue
		}
		return strings.HasPrefix(t, "verif/sim/")
	}
	return false
}

func orEmpty(v []map[string]any) []map[string]any {
	if v == nil {
		return []map[string]any{}
	}
	return v
}

func orEmptyS(v []string) []string {
	if v == nil {
		return []string{}
	}
	return v
}

// lockDiscipline lists what the kernel's mutex tracking assumes about /repo and no longer finds
// (information for the evidence and for the watchdog message; it never changes a verdict).
func lockDiscipline() []string {
	repo := os.Getenv("VERIF_REPO")
	if repo == "" {
		repo = "/repo"
	}
	var out []string
	for _, dir := range []string{"pkg/engine", "pkg/engine/uci", "pkg/search", "pkg/search/searchctl", "pkg/eval"} {
		ents, _ := os.ReadDir(filepath.Join(repo, dir))
		for _, e := range ents {
			if e.IsDir() || !strings.HasSuffix(e.Name(), ".go") || strings.HasSuffix(e.Name(), "_test.go") {
				continue
			}
			f := filepath.Join(dir, e.Name())
			b, err := os.ReadFile(filepath.Join(repo, f))
			if err != nil {
				continue
			}
			lines := strings.Split(string(b), "\n")
			for i, l := range lines {
				t := strings.TrimSpace(l)
				if strings.Contains(t, "sync.Mutex") || strings.Contains(t, "sync.RWMutex") {
					if !((f == "pkg/engine/engine.go" || f == "pkg/search/searchctl/iterative.go") && strings.HasPrefix(t, "mu ")) {
						out = append(out, fmt.Sprintf("%s:%d declares a mutex the simulator does not track (%s)", f, i+1, t))
					}
				}
				if f == "pkg/search/searchctl/iterative.go" && strings.HasSuffix(t, "h.mu.Lock()") {
					if i == 0 || strings.TrimSpace(lines[i-1]) != `simhook.Locking(&h.mu)` {
						out = append(out, fmt.Sprintf("%s:%d takes handle.mu without simhook.Locking in front", f, i+1))
					}
				}
				if f == "pkg/engine/engine.go" && strings.HasSuffix(t, "e.mu.Lock()") {
					if i == 0 || strings.TrimSpace(lines[i-1]) != `simhook.Yield("engine.lock")` {
						out = append(out, fmt.Sprintf("%s:%d takes Engine.mu without the engine.lock hook in front", f, i+1))
					}
				}
			}
		}
	}
	return out
}

// wiringDrift: the four main() functions cannot be imported, so verif/sim/sa/engines.go repeats their
// engine wiring. This lists the fragments of that wiring that are no longer found in cmd/*/main.go
// (information for the reader of the evidence; it never changes a verdict).
func wiringDrift() []string {
	want := map[string][]string{
		"cmd/morlock/main.go":   {"search.AlphaBeta{", "search.Leaf{Eval: eval.Material{}}", "search.NewMinDepthTranspositionTable(1)"},
		"cmd/turochamp/main.go": {"search.Quiescence{", "turochamp.ConsiderableMovesOnly", "search.Leaf{Eval: turochamp.Eval{}}", `flag.Uint("ply", 2`, `flag.Uint("noise", 10`},
		"cmd/sargon/main.go":    {"sargon.Hook{", "sargon.SkipUnderPromotions", "sargon.OnePlyIfChecked{", "search.Leaf{Eval: points}", "sargon.NewBook()", `flag.Uint("ply", 1`},
		"cmd/bernstein/main.go": {"bernstein.PlausibleMoveTable{Limit: *branch}.Explore", "bernstein.Eval{Factor: *material}", "bernstein.NewBook()", `flag.Uint("ply", 4`, `flag.Int("branch", 7`, `flag.Int("material", 20`},
	}
	repo := os.Getenv("VERIF_REPO")
	if repo == "" {
		repo = "/repo"
	}
	drift := append([]string{}, lockDiscipline()...)
	var files []string
	for f := range want {
		files = append(files, f)
	}
	sort.Strings(files)
	for _, f := range files {
		b, err := os.ReadFile(filepath.Join(repo, f))
		if err != nil {
			drift = append(drift, f+": unreadable")
			continue
		}
		for _, frag := range want[f] {
			if !strings.Contains(string(b), frag) {
				drift = append(drift, f+": no longer contains "+frag)
			}
		}
	}
	return drift
}
