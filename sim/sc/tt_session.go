// Package sc is simulator S-C: the real transposition table under N simulated clients whose
// progress between the table's hook points is decided by the seeded scheduler; the recorded
// history is checked with porcupine against a one-slot model.
package sc

import (
	"context"
	"fmt"
	"sync/atomic"
	"time"

	"github.com/anishathalye/porcupine"
	"github.com/herohde/morlock/pkg/board"
	"github.com/herohde/morlock/pkg/eval"
	"github.com/herohde/morlock/pkg/search"
	"verif/sim/core"
	"verif/sim/sa"
	"verif/sim/tape"
)

type class struct{ ply, depth int }

type payload struct {
	bound search.Bound
	score float32
	from  board.Square
	to    board.Square
	promo board.Piece
}

type entry struct {
	hash board.ZobristHash
	cls  class
	pl   payload
}

type opIn struct {
	kind string // "write" | "read"
	hash board.ZobristHash
	cls  class
	pl   payload
}

type opOut struct {
	ok    bool
	depth int
	pl    payload
}

// learnRank learns "new replaces cur" from the sequential behaviour of the real table, for all
// classes the workload uses. Returns nil if the relation is not a total preorder (harness trouble
// is not declared: a replacement policy without a value order is itself against the property).
func learnRank(classes []class) (map[[2]class]bool, string) {
	ctx := context.Background()
	r := map[[2]class]bool{}
	for _, a := range classes {
		for _, b := range classes {
			tt := search.NewTranspositionTable(ctx, 32)
			if !tt.Write(1, search.ExactBound, a.ply, a.depth, eval.HeuristicScore(1), board.Move{}) {
				return nil, fmt.Sprintf("a store into an empty slot was refused (ply %d depth %d)", a.ply, a.depth)
			}
			ok := tt.Write(2, search.ExactBound, b.ply, b.depth, eval.HeuristicScore(2), board.Move{})
			_, _, sc, _, hit := tt.Read(2)
			if ok != (hit && sc == eval.HeuristicScore(2)) {
				return nil, "Write's result disagrees with the following Read"
			}
			r[[2]class{a, b}] = ok
		}
	}
	// total preorder: define a <= b iff b replaces a; need totality and transitivity
	for _, a := range classes {
		for _, b := range classes {
			if !r[[2]class{a, b}] && !r[[2]class{b, a}] {
				return nil, fmt.Sprintf("neither of (ply %d depth %d) and (ply %d depth %d) replaces the other", a.ply, a.depth, b.ply, b.depth)
			}
			for _, c := range classes {
				if r[[2]class{a, b}] && r[[2]class{b, c}] && !r[[2]class{a, c}] {
					return nil, "replacement relation is not transitive"
				}
			}
		}
	}
	return r, ""
}

func model(rank map[[2]class]bool) porcupine.Model {
	return porcupine.Model{
		Init: func() interface{} { return (*entry)(nil) },
		Step: func(state, input, output interface{}) (bool, interface{}) {
			cur := state.(*entry)
			in := input.(opIn)
			out := output.(opOut)
			switch in.kind {
			case "write":
				want := cur == nil || rank[[2]class{cur.cls, in.cls}]
				if out.ok != want {
					return false, state
				}
				if want {
					return true, &entry{hash: in.hash, cls: in.cls, pl: in.pl}
				}
				return true, state
			default:
				if cur != nil && cur.hash == in.hash {
					return out.ok && out.depth == cur.cls.depth && out.pl == cur.pl, state
				}
				return !out.ok, state
			}
		},
		Equal: func(a, b interface{}) bool {
			x, y := a.(*entry), b.(*entry)
			if x == nil || y == nil {
				return x == y
			}
			return *x == *y
		},
	}
}

// Session runs one S-C session.
func Session(t *tape.Tape) *core.RunResult {
	res := core.NewResult()
	k := sa.NewKernel(t, res)
	defer k.Uninstall()
	ctx := context.Background()

	classes := []class{{1, 0}, {2, 0}, {1, 1}, {3, 1}, {2, 2}, {6, 0}}
	rank, why := learnRank(classes)
	if rank == nil {
		res.Violate("C17", "no-replacement-order", 0, "the table's sequential behaviour does not define a replacement value: %s", why)
		return res
	}
	slots := uint64(1) << t.Choose(3) // 1, 2 or 4 slots
	req := slots << 5
	if t.Chance(1, 3) {
		req += uint64(1 + t.Choose(int(req)-1)) // any size: rounded down to a power of two
		res.Probe("table-size-not-a-power-of-two")
	}
	tt := search.NewTranspositionTable(ctx, req)
	nHash := t.Range(2, 5)
	hashes := make([]board.ZobristHash, nHash)
	for i := range hashes {
		hashes[i] = board.ZobristHash(uint64(t.Choose(int(slots))) + slots*uint64(i+1)*977)
		// some hashes are aliases of an earlier one: same slot, differing in one high bit only, so that a
		// table that compares less than the full hash returns one position's entry for the other
		if i > 0 && t.Chance(1, 3) {
			hashes[i] = hashes[t.Choose(i)] ^ board.ZobristHash(uint64(1)<<uint(20+t.Choose(44)))
			res.Probe("aliased-hash")
		}
	}
	nClients := t.Range(2, 5)
	opsPer := t.Range(2, 8)
	if maxOps := core.Scale(36, 56); nClients*opsPer > maxOps {
		opsPer = maxOps / nClients
	}
	res.Tracef("slots=%d hashes=%d clients=%d ops/client=%d", slots, nHash, nClients, opsPer)

	var stamp atomic.Int64
	type rec struct {
		client int
		in     opIn
		out    opOut
		call   int64
		ret    int64
	}
	histories := make([][]rec, nClients)
	usedSeen := []float64{}
	done := make([]bool, nClients)
	for c := 0; c < nClients; c++ {
		// the operation list of this client, drawn up front
		var ops []opIn
		for i := 0; i < opsPer; i++ {
			h := hashes[t.Choose(nHash)]
			if t.Chance(3, 5) {
				cl := classes[t.Choose(len(classes))]
				bound := search.Bound(t.Choose(2))
				pl := payload{bound: bound, score: float32(c*1000 + i + 1), from: board.Square(c), to: board.Square(i), promo: board.Piece(1 + (c+i)%5)}
				if t.Chance(1, 4) {
					// a store without a move (what a leaf stores): the tuple is still one store's, zero move included
					pl.from, pl.to, pl.promo = 0, 0, 0
					res.Probe("move-less-store")
				}
				ops = append(ops, opIn{kind: "write", hash: h, cls: cl, pl: pl})
			} else {
				ops = append(ops, opIn{kind: "read", hash: h})
			}
		}
		c := c
		pfx := fmt.Sprintf("client%c", 'A'+c)
		go func() {
			for _, op := range ops {
				k.Park(pfx + ".op")
				r := rec{client: c, in: op, call: stamp.Add(1)}
				if op.kind == "write" {
					mv := board.Move{From: op.pl.from, To: op.pl.to, Promotion: op.pl.promo}
					r.out.ok = tt.Write(op.hash, op.pl.bound, op.cls.ply, op.cls.depth, eval.HeuristicScore(eval.Pawns(op.pl.score)), mv)
				} else {
					b, d, s, m, ok := tt.Read(op.hash)
					r.out = opOut{ok: ok}
					if ok {
						r.out.depth = d
						r.out.pl = payload{bound: b, score: float32(s.Pawns), from: m.From, to: m.To, promo: m.Promotion}
						if !s.IsHeuristic() {
							r.out.pl.score = -1
						}
					}
				}
				r.ret = stamp.Add(1)
				histories[c] = append(histories[c], r)
			}
			done[c] = true
			k.Park(pfx + ".done")
		}()
		k.Wait()
		k.Parked()
	}

	steps := 0
	for steps < 3000 {
		steps++
		k.Wait()
		ps := k.Parked()
		var run []*sa.Task
		for _, tk := range ps {
			if len(tk.Point) > 5 && tk.Point[len(tk.Point)-5:] == ".done" {
				continue
			}
			run = append(run, tk)
		}
		if len(run) == 0 {
			break
		}
		// bias: keep picking the same client rarely, so that one client sits between its load and its CAS while others store
		tk := run[t.Choose(len(run))]
		if tk.Point == "tt.loaded" && len(run) > 1 && t.Chance(1, 2) {
			res.Probe("client-held-between-load-and-cas")
			tk = run[t.Choose(len(run))]
		}
		res.Tracef("[%d] run %s@%s", steps, tk.Name, tk.Point)
		k.Release(tk, 0)
		k.Wait()
		// (2) fill fraction at every quiescent point
		u := tt.Used()
		usedSeen = append(usedSeen, u)
		if u < 0 || u > 1 {
			res.Violate("C17", "fill-fraction-out-of-range", steps, "Used() = %v", u)
			break
		}
	}
	k.Drain()
	time.Sleep(time.Second)
	k.Wait()
	if len(res.Violations) > 0 {
		return res
	}
	// history -> porcupine, partitioned by slot
	var ops []porcupine.Operation
	occupied := map[uint64]bool{}
	retries := 0
	for c := range histories {
		for _, r := range histories[c] {
			ops = append(ops, porcupine.Operation{ClientId: c, Input: r.in, Call: r.call, Output: r.out, Return: r.ret})
			if r.in.kind == "write" && r.out.ok {
				occupied[uint64(r.in.hash)&(slots-1)] = true
			}
			// mixture check before linearizability: a hit must return a payload some single store wrote for that hash
			if r.in.kind == "read" && r.out.ok {
				found := false
				for c2 := range histories {
					for _, w := range histories[c2] {
						if w.in.kind == "write" && w.in.hash == r.in.hash && w.in.pl == r.out.pl && w.in.cls.depth == r.out.depth {
							found = true
						}
					}
				}
				if !found {
					res.Violate("C17", "hit-mixes-stores", steps, "Read(%x) returned %+v depth %d: no single store for that hash wrote this tuple", uint64(r.in.hash), r.out.pl, r.out.depth)
					return res
				}
			}
		}
	}
	_ = retries
	m := model(rank)
	m.Partition = func(history []porcupine.Operation) [][]porcupine.Operation {
		parts := map[uint64][]porcupine.Operation{}
		var keys []uint64
		for _, op := range history {
			key := uint64(op.Input.(opIn).hash) & (slots - 1)
			if _, ok := parts[key]; !ok {
				keys = append(keys, key)
			}
			parts[key] = append(parts[key], op)
		}
		var out [][]porcupine.Operation
		for _, k := range keys {
			out = append(out, parts[k])
		}
		return out
	}
	switch porcupine.CheckOperationsTimeout(m, ops, 10*time.Second) {
	case porcupine.Illegal:
		res.Violate("C17", "not-linearizable", steps, "the recorded history of %d operations by %d clients on %d slots is not linearizable with respect to the table's own sequential behaviour (a store was lost, mixed, or replaced an entry of greater value)", len(ops), nClients, slots)
		for c := range histories {
			for _, r := range histories[c] {
				res.Tracef("client %d [%d,%d] %s %x %+v -> %+v", c, r.call, r.ret, r.in.kind, uint64(r.in.hash), r.in.cls, r.out)
			}
		}
		return res
	case porcupine.Unknown:
		res.Inconclusive["porcupine-timeout"]++
	}
	// (2) at the end every occupied slot is counted exactly once
	if got, want := tt.Used()*float64(slots), float64(len(occupied)); got != want {
		res.Violate("C17", "fill-count-wrong", steps, "Used() says %v of %d slots, %v are occupied", got, slots, want)
		return res
	}
	res.Steps = steps
	res.TraceHash = k.InterleavingHash()
	res.NonTrivial = len(ops) >= 6
	res.Digest = fmt.Sprintf("%016x/%d", k.InterleavingHash(), len(ops))
	return res
}
