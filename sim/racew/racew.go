// Package racew holds the free-running workloads of the -race tier (DESIGN.md 2.7): real
// goroutines, real time, seeded workload but unseeded schedule. This is runtime monitoring, not
// simulation: a race report is always a true positive, a clean run proves nothing.
package racew

import (
	"context"
	"fmt"
	"math/rand"
	"strings"
	"sync"
	"sync/atomic"
	"time"

	"github.com/herohde/morlock/cmd/bernstein/bernstein"
	"github.com/herohde/morlock/cmd/sargon/sargon"
	"github.com/herohde/morlock/cmd/turochamp/turochamp"
	"github.com/herohde/morlock/pkg/board"
	"github.com/herohde/morlock/pkg/engine"
	"github.com/herohde/morlock/pkg/engine/uci"
	"github.com/herohde/morlock/pkg/eval"
	"github.com/herohde/morlock/pkg/search"
	"github.com/herohde/morlock/pkg/search/searchctl"
	"github.com/seekerror/stdlib/pkg/lang"
)

// Table: goroutines hammer Read/Write/Used of one real table.
func Table(seed int64, d time.Duration) int {
	r := rand.New(rand.NewSource(seed))
	slots := uint64(1) << (2 + r.Intn(5))
	tt := search.NewTranspositionTable(context.Background(), slots<<5)
	n := 2 + r.Intn(15)
	deadline := time.Now().Add(d)
	var wg sync.WaitGroup
	ops := make([]int, n)
	for g := 0; g < n; g++ {
		g := g
		rr := rand.New(rand.NewSource(seed*131 + int64(g)))
		wg.Add(1)
		go func() {
			defer wg.Done()
			for i := 0; time.Now().Before(deadline); i++ {
				h := board.ZobristHash(rr.Intn(int(slots) * 3))
				switch rr.Intn(5) {
				case 0, 1:
					tt.Write(h, search.Bound(rr.Intn(2)), 1+rr.Intn(6), rr.Intn(4), eval.HeuristicScore(eval.Pawns((i%400000)*32+g)), board.Move{From: board.Square(g), To: board.Square(i % 64)})
				case 2, 3:
					if _, _, s, m, ok := tt.Read(h); ok {
						if int(m.From) != int(s.Pawns)%32 {
							panic(fmt.Sprintf("ORACLE[hit-mixes-stores]: a table hit returned score %v with move %v: no single store wrote that tuple", s, m))
						}
					}
				default:
					if u := tt.Used(); u < 0 || u > 1 {
						panic(fmt.Sprintf("ORACLE[fill-fraction-out-of-range]: Used() = %v", u))
					}
				}
				ops[g]++
			}
		}()
	}
	wg.Wait()
	tot := 0
	for _, o := range ops {
		tot += o
	}
	// fill phase: several goroutines fill disjoint parts of an empty table, every slot exactly once;
	// afterwards the fill fraction must be exactly 1 (a counter updated by load-then-store loses updates)
	big := uint64(1) << 14
	ft := search.NewTranspositionTable(context.Background(), big<<5)
	parts := 2 + r.Intn(7)
	var fw sync.WaitGroup
	for g := 0; g < parts; g++ {
		g := g
		fw.Add(1)
		go func() {
			defer fw.Done()
			for h := uint64(g); h < big; h += uint64(parts) {
				ft.Write(board.ZobristHash(h), search.ExactBound, 1, 1, eval.HeuristicScore(1), board.Move{From: board.Square(1), To: board.Square(2)})
			}
		}()
	}
	fw.Wait()
	if u := ft.Used(); u != 1 {
		panic(fmt.Sprintf("ORACLE[fill-count-wrong]: %d goroutines filled every one of %d empty slots exactly once; Used() says %v", parts, big, u))
	}
	return tot + int(big)
}

// must runs f and panics with a DEADLOCK message if it does not return within 30 s of real time:
// in the free-running tier a call that never returns is a deadlock of the code under test.
func must(what string, f func()) {
	done := make(chan struct{})
	go func() { f(); close(done) }()
	select {
	case <-done:
	case <-time.After(30 * time.Second):
		panic("DEADLOCK: " + what + " did not return within 30 s")
	}
}

// stall is an evaluator that now and then takes a while (atomically counted, so it adds no race of its
// own): a halted search then needs a moment to notice, which is when a Halt that does not wait for it,
// or an Analyze that does not wait for Halt, lets two searches of one engine run side by side.
type stall struct {
	inner eval.Evaluator
	n     *atomic.Int64
}

func (s stall) Evaluate(ctx context.Context, b *board.Board) eval.Pawns {
	if s.n.Add(1)%48 == 0 {
		time.Sleep(150 * time.Microsecond)
	}
	return s.inner.Evaluate(ctx, b)
}

var slowLeaves atomic.Bool // set by the workloads that want stalling evaluators

func wrap(e eval.Evaluator) eval.Evaluator {
	if slowLeaves.Load() {
		return stall{inner: e, n: new(atomic.Int64)}
	}
	return e
}

func build(ctx context.Context, w int, opts engine.Options) (*engine.Engine, []uci.Option) {
	switch w {
	case 0:
		return engine.New(ctx, "morlock", "x", search.AlphaBeta{Eval: search.Leaf{Eval: wrap(eval.Material{})}}, engine.WithOptions(opts), engine.WithTable(search.NewMinDepthTranspositionTable(1))), nil
	case 1:
		s := search.AlphaBeta{Eval: search.Quiescence{Explore: turochamp.ConsiderableMovesOnly, Eval: search.Leaf{Eval: wrap(turochamp.Eval{})}}}
		return engine.New(ctx, "turochamp", "x", s, engine.WithOptions(opts)), nil
	case 2:
		points := &sargon.Points{}
		s := sargon.Hook{Eval: search.AlphaBeta{Explore: sargon.SkipUnderPromotions, Eval: sargon.OnePlyIfChecked{Leaf: search.Leaf{Eval: points}}}, Hook: points}
		return engine.New(ctx, "sargon", "x", s, engine.WithOptions(opts)), []uci.Option{uci.UseBook(sargon.NewBook(), 1)}
	default:
		s := search.AlphaBeta{Explore: bernstein.PlausibleMoveTable{Limit: 7}.Explore, Eval: search.Leaf{Eval: bernstein.Eval{Factor: 20}}}
		return engine.New(ctx, "bernstein", "x", s, engine.WithOptions(opts)), []uci.Option{uci.UseBook(bernstein.NewBook(), 1)}
	}
}

var lines = []string{"e2e4", "e7e5", "g1f3", "b8c6", "f1c4", "f8c5", "c2c3", "g8f6", "d2d4", "e5d4", "c3d4", "c5b4"}

// Engine: Analyze / Halt / Move / Analyze again at once, so that a halted search is still unwinding
// while its successor runs on the same table, evaluator and noise generator.
func Engine(seed int64, d time.Duration, w int, hash, noise uint) int {
	r := rand.New(rand.NewSource(seed))
	ctx, cancel := context.WithCancel(context.Background())
	defer cancel()
	e, _ := build(ctx, w, engine.Options{Hash: hash, Noise: noise})
	deadline := time.Now().Add(d)
	n := 0
	for time.Now().Before(deadline) {
		e.Reset(ctx, "rnbqkbnr/pppppppp/8/8/8/8/PPPPPPPP/RNBQKBNR w KQkq - 0 1")
		for _, m := range lines[:r.Intn(len(lines))] {
			out, err := e.Analyze(ctx, searchctl.Options{DepthLimit: lang.Some(uint(0))})
			if err != nil {
				panic(err)
			}
			go func() {
				for range out {
				}
			}()
			time.Sleep(time.Duration(r.Intn(3000)) * time.Microsecond)
			must("Engine.Position", func() { e.Position() })
			must("Engine.Move (halting the running search)", func() {
				if err := e.Move(ctx, m); err != nil { // halts the search and goes on at once
					panic(err)
				}
			})
			n++
		}
	}
	must("Engine.Halt", func() { e.Halt(ctx) })
	return n
}

// UCI: a real driver fed with lines at random short intervals.
func UCI(seed int64, d time.Duration, w int) int {
	r := rand.New(rand.NewSource(seed))
	ctx, cancel := context.WithCancel(context.Background())
	defer cancel()
	e, opts := build(ctx, w, engine.Options{Hash: uint(r.Intn(2)), Noise: uint(r.Intn(2) * 50), Depth: 0})
	in := make(chan string)
	drv, out := uci.NewDriver(ctx, e, in, opts...)
	var wg sync.WaitGroup
	wg.Add(1)
	// a reader that stops reading for a while now and then: the driver's output buffer fills up, the command
	// loop blocks on it, and the queue of reports behind it fills up
	flood := r.Intn(2) == 0 // mostly roots where every iteration is instant, searched without limit
	lagging := flood || r.Intn(2) == 0
	go func() {
		defer wg.Done()
		cnt := 0
		for range out {
			if cnt++; lagging && cnt%300 == 0 {
				time.Sleep(8 * time.Millisecond)
			}
		}
	}()
	deadline := time.Now().Add(d)
	n := 0
	moves := []string{}
	for time.Now().Before(deadline) {
		var l string
		c := r.Intn(10)
		if flood {
			c = []int{9, 9, 2, 2, 2, 4, 4, 4, 6, 7}[c]
		}
		switch c {
		case 9:
			// a root where every iteration is instant (stalemate; fifty-move clock run out): with no depth limit
			// the search reports iterations as fast as it can, and the report queue fills up
			moves = moves[:0]
			l = []string{"position fen 7k/5Q2/6K1/8/8/8/8/8 b - - 0 1", "position fen r3k2r/8/8/8/8/8/8/R3K2R w KQkq - 99 100", "position fen 8/8/3nk3/8/8/3NK3/8/8 w - - 100 90", "position fen 8/8/4k3/8/8/3K4/8/8 w - - 99 120"}[r.Intn(4)]
		case 0, 1:
			if len(moves) < len(lines) {
				moves = append(moves, lines[len(moves)])
			} else {
				moves = moves[:r.Intn(len(moves))]
			}
			l = strings.TrimSpace("position startpos moves " + strings.Join(moves, " "))
			if len(moves) == 0 {
				l = "position startpos"
			}
		case 2, 3:
			l = []string{"go infinite", "go depth 3", "go movetime 2", "go", "go wtime 100 btime 100"}[r.Intn(5)]
		case 4, 5:
			l = "stop"
		case 6:
			l = "isready"
		case 7:
			l = "ucinewgame"
		default:
			l = []string{"setoption name Hash value 1", "setoption name Noise value 30", "setoption name OwnBook value false"}[r.Intn(3)]
		}
		must("the driver taking the line "+l, func() { in <- l })
		n++
		time.Sleep(time.Duration(r.Intn(2000)) * time.Microsecond)
	}
	if r.Intn(2) == 0 {
		must("the driver taking quit", func() { in <- "quit" })
	} else {
		close(in)
	}
	must("driver shutdown after quit / end of input", func() { <-drv.Closed(); wg.Wait() })
	return n
}

// EngineTwoClients: one goroutine halts the running analysis through Engine.Halt while another keeps
// asking Engine.Analyze for the next one (accepted as soon as the engine considers itself idle).
func EngineTwoClients(seed int64, d time.Duration, w int, noise uint) int {
	r := rand.New(rand.NewSource(seed))
	slowLeaves.Store(r.Intn(2) == 0)
	defer slowLeaves.Store(false)
	ctx, cancel := context.WithCancel(context.Background())
	defer cancel()
	e, _ := build(ctx, w, engine.Options{Noise: noise})
	deadline := time.Now().Add(d)
	n := 0
	drain := func(out <-chan search.PV) {
		go func() {
			for range out {
			}
		}()
	}
	e.Reset(ctx, "rnbqkbnr/pppppppp/8/8/8/8/PPPPPPPP/RNBQKBNR w KQkq - 0 1")
	out, err := e.Analyze(ctx, searchctl.Options{DepthLimit: lang.Some(uint(0))})
	if err != nil {
		panic(err)
	}
	drain(out)
	for time.Now().Before(deadline) {
		time.Sleep(time.Duration(r.Intn(2000)) * time.Microsecond)
		// every other analysis runs under a clock of a few milliseconds, so that its hard-limit timer halts
		// it at about the moment the client does: two halters of one search, then the next analysis at once
		next := searchctl.Options{DepthLimit: lang.Some(uint(0))}
		if r.Intn(3) > 0 {
			// hard limit = 3/80 of the clock: 0.1 .. 2 ms, the range of the pause above
			c := time.Duration(3+r.Intn(50)) * time.Millisecond
			next.TimeControl = lang.Some(searchctl.TimeControl{White: c, Black: c})
		}
		var wg sync.WaitGroup
		wg.Add(2)
		go func() {
			defer wg.Done()
			must("Engine.Halt", func() { e.Halt(ctx) })
		}()
		go func() {
			defer wg.Done()
			must("Engine.Analyze after a halt", func() {
				for {
					out, err := e.Analyze(ctx, next)
					if err == nil {
						drain(out)
						return
					}
					time.Sleep(20 * time.Microsecond)
				}
			})
		}()
		wg.Wait()
		n++
	}
	must("Engine.Halt", func() { e.Halt(ctx) })
	return n
}

// UCIRounds: the free-running driver with a per-round oracle. Each round sends one go (ended by its
// depth limit, by stop, or both at about the same moment), waits for the answer, then uses
// isready/readyok as a barrier and a short pause, and counts the bestmove lines of the round:
// exactly one. (Runtime monitoring of "exactly one bestmove per go" where real parallelism matters.)
func UCIRounds(seed int64, d time.Duration, w int) int {
	r := rand.New(rand.NewSource(seed))
	ctx, cancel := context.WithCancel(context.Background())
	defer cancel()
	e, opts := build(ctx, w, engine.Options{Depth: 0})
	in := make(chan string)
	drv, out := uci.NewDriver(ctx, e, in, opts...)
	var mu sync.Mutex
	best, ready := 0, 0
	slow := r.Intn(3) == 0 // a slow reader lets the driver's output buffer fill up
	go func() {
		for l := range out {
			if slow {
				time.Sleep(50 * time.Microsecond)
			}
			mu.Lock()
			if strings.HasPrefix(l, "bestmove") {
				best++
			}
			if l == "readyok" {
				ready++
			}
			mu.Unlock()
		}
	}()
	get := func() (int, int) { mu.Lock(); defer mu.Unlock(); return best, ready }
	send := func(l string) { must("the driver taking the line "+l, func() { in <- l }) }
	deadline := time.Now().Add(d)
	send("setoption name OwnBook value false")
	n := 0
	for time.Now().Before(deadline) {
		b0, r0 := get()
		send("position startpos moves " + strings.Join(lines[:1+r.Intn(len(lines)-1)], " "))
		switch r.Intn(3) {
		case 0:
			send("go depth 1")
			send("stop")
		case 1:
			send("go depth 2")
			time.Sleep(time.Duration(r.Intn(300)) * time.Microsecond)
			send("stop")
		default:
			send("go infinite")
			time.Sleep(time.Duration(r.Intn(300)) * time.Microsecond)
			send("stop")
			send("stop")
		}
		send("isready")
		must("readyok and the answer to the go", func() {
			for {
				b, rd := get()
				if rd > r0 && b > b0 {
					return
				}
				time.Sleep(20 * time.Microsecond)
			}
		})
		time.Sleep(time.Duration(200+r.Intn(800)) * time.Microsecond)
		if b, _ := get(); b != b0+1 {
			panic(fmt.Sprintf("ORACLE[wrong-answer-count]: %d bestmove lines for one go (round %d)", b-b0, n))
		}
		n++
	}
	send("quit")
	must("driver shutdown after quit", func() { <-drv.Closed() })
	return n
}
