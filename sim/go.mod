module verif/sim

go 1.25

require (
	github.com/anishathalye/porcupine v1.3.0
	github.com/herohde/morlock v0.0.0
)

require github.com/seekerror/stdlib v0.0.0-20231216224128-fab4c1e73ebe // indirect

replace github.com/herohde/morlock => /repo
