package rules

import "fmt"

// SelfTest validates M-rules against published perft counts. A mismatch is
// harness trouble (exit 2), never a verdict about /repo.
func SelfTest() error {
	cases := []struct {
		fen string
		d   int
		n   uint64
	}{
		{"rnbqkbnr/pppppppp/8/8/8/8/PPPPPPPP/RNBQKBNR w KQkq - 0 1", 4, 197281},
		{"r3k2r/p1ppqpb1/bn2pnp1/3PN3/1p2P3/2N2Q1p/PPPBBPPP/R3K2R w KQkq - 0 1", 3, 97862},
		{"8/2p5/3p4/KP5r/1R3p1k/8/4P1P1/8 w - - 0 1", 4, 43238},
		{"r3k2r/Pppp1ppp/1b3nbN/nP6/BBP1P3/q4N2/Pp1P2PP/R2Q1RK1 w kq - 0 1", 3, 9467},
		{"rnbq1k1r/pp1Pbppp/2p5/8/2B5/8/PPP1NnPP/RNBQK2R w KQ - 1 8", 3, 62379},
		{"r4rk1/1pp1qppp/p1np1n2/2b1p1B1/2B1P1b1/P1NP1N2/1PP1QPPP/R4RK1 w - - 0 10", 3, 89890},
	}
	for _, c := range cases {
		p, _, _, err := ParseFEN(c.fen)
		if err != nil {
			return err
		}
		if got := p.Perft(c.d); got != c.n {
			return fmt.Errorf("M-rules perft(%d) of %q = %d, want %d", c.d, c.fen, got, c.n)
		}
		if p.FEN4() != c.fen[:len(p.FEN4())] {
			return fmt.Errorf("M-rules FEN round trip: %q vs %q", p.FEN4(), c.fen)
		}
	}
	return nil
}
