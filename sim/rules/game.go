package rules

// Game is M-game: a start and a move list; everything else is recomputed.
type Game struct {
	Start     Pos
	StartHalf int
	StartFull int
	Moves     []Move
}

func NewGame(fen string) (*Game, error) {
	p, h, f, err := ParseFEN(fen)
	if err != nil {
		return nil, err
	}
	return &Game{Start: p, StartHalf: h, StartFull: f}, nil
}

func (g *Game) Clone() *Game {
	c := *g
	c.Moves = append([]Move(nil), g.Moves...)
	return &c
}

// Line returns every position of the game, start included.
func (g *Game) Line() []Pos {
	out := make([]Pos, 0, len(g.Moves)+1)
	p := g.Start
	out = append(out, p)
	for _, m := range g.Moves {
		p = p.Make(m)
		out = append(out, p)
	}
	return out
}

func (g *Game) Pos() Pos {
	p := g.Start
	for _, m := range g.Moves {
		p = p.Make(m)
	}
	return p
}

// Half is the half-move clock by the FEN definition: reset by pawn moves and captures only.
func (g *Game) Half() int {
	h := g.StartHalf
	p := g.Start
	for _, m := range g.Moves {
		in := p.Describe(m)
		if in.Piece == Pawn || in.Capture != Empty {
			h = 0
		} else {
			h++
		}
		p = p.Make(m)
	}
	return h
}

// Full is the full-move number: incremented after each Black move.
func (g *Game) Full() int {
	f := g.StartFull
	w := g.Start.WhiteT
	for range g.Moves {
		if !w {
			f++
		}
		w = !w
	}
	return f
}

func (g *Game) FEN() string {
	p := g.Pos()
	return p.FEN(g.Half(), g.Full())
}

// Occurrences counts how often the current position occurred in the game, start included.
func (g *Game) Occurrences() int {
	line := g.Line()
	cur := line[len(line)-1]
	n := 0
	for _, p := range line {
		if p == cur {
			n++
		}
	}
	return n
}

// DrawEvents reports which of C05's events hold at the current node, given the last move.
type DrawEvents struct {
	Rep3, Rep5, Fifty, Material bool
}

func (d DrawEvents) Any() bool { return d.Rep3 || d.Fifty || d.Material }

func (g *Game) Events() DrawEvents {
	var d DrawEvents
	occ := g.Occurrences()
	d.Rep3 = occ >= 3
	d.Rep5 = occ >= 5
	d.Fifty = g.Half() >= 100
	if n := len(g.Moves); n > 0 {
		prev := Game{Start: g.Start, Moves: g.Moves[:n-1]}
		pp := prev.Pos()
		in := pp.Describe(g.Moves[n-1])
		if in.Capture != Empty || (in.Promotion && g.Moves[n-1].Promo != Queen) {
			cur := g.Pos()
			d.Material = cur.InsufficientMaterial()
		}
	}
	return d
}

// EverDrawn reports whether any draw event held at any node of the game after a move.
func (g *Game) EverDrawn() bool {
	for n := 1; n <= len(g.Moves); n++ {
		h := Game{Start: g.Start, StartHalf: g.StartHalf, StartFull: g.StartFull, Moves: g.Moves[:n]}
		if h.Events().Any() {
			return true
		}
	}
	return false
}

// EverEvents is the union of the draw events over every node of the game after a move.
func (g *Game) EverEvents() DrawEvents {
	var u DrawEvents
	for n := 1; n <= len(g.Moves); n++ {
		h := Game{Start: g.Start, StartHalf: g.StartHalf, StartFull: g.StartFull, Moves: g.Moves[:n]}
		e := h.Events()
		u.Rep3 = u.Rep3 || e.Rep3
		u.Rep5 = u.Rep5 || e.Rep5
		u.Fifty = u.Fifty || e.Fifty
		u.Material = u.Material || e.Material
	}
	return u
}
