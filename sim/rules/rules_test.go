package rules

import "testing"

func TestPerft(t *testing.T) {
	if err := SelfTest(); err != nil {
		t.Fatal(err)
	}
}
