// Package rules is M-rules and M-game: chess by definition on an 8x8 mailbox.
// It shares no code, table or representation idea with /repo/pkg/board: squares
// are rank*8+file with a1=0, pieces are small signed ints, moves are found by
// walking offsets, legality by make-move + "is my king attacked" scan.
package rules

import (
	"fmt"
	"strconv"
	"strings"
)

type Piece int8

const (
	Empty  Piece = 0
	Pawn   Piece = 1
	Knight Piece = 2
	Bishop Piece = 3
	Rook   Piece = 4
	Queen  Piece = 5
	King   Piece = 6
)

// Kind returns the colourless kind; White reports colour (positive = white).
func (p Piece) Kind() Piece {
	if p < 0 {
		return -p
	}
	return p
}
func (p Piece) White() bool { return p > 0 }

const letters = ".pnbrqk"

func (p Piece) Letter() byte {
	c := letters[p.Kind()]
	if p > 0 {
		c = c - 'a' + 'A'
	}
	return c
}

func Sq(file, rank int) int { return rank*8 + file }
func File(s int) int        { return s & 7 }
func Rank(s int) int        { return s >> 3 }
func SqName(s int) string   { return string([]byte{byte('a' + File(s)), byte('1' + Rank(s))}) }
func onBoard(f, r int) bool { return f >= 0 && f < 8 && r >= 0 && r < 8 }
func ParseSq(s string) (int, bool) {
	if len(s) != 2 || s[0] < 'a' || s[0] > 'h' || s[1] < '1' || s[1] > '8' {
		return 0, false
	}
	return Sq(int(s[0]-'a'), int(s[1]-'1')), true
}

// Castling right indices.
const (
	WK = 0
	WQ = 1
	BK = 2
	BQ = 3
)

// Pos is a position: placement, side to move, castling rights, en-passant target.
// It is a comparable value; equality is exactly the repetition key of C05.
type Pos struct {
	B      [64]Piece
	WhiteT bool    // white to move
	Castle [4]bool // K Q k q
	EP     int8    // target square or -1
}

type Move struct {
	From, To int
	Promo    Piece // kind (Knight..Queen) or Empty
}

func (m Move) UCI() string {
	s := SqName(m.From) + SqName(m.To)
	if m.Promo != Empty {
		s += string(letters[m.Promo])
	}
	return s
}

func ParseUCI(s string) (Move, bool) {
	if len(s) != 4 && len(s) != 5 {
		return Move{}, false
	}
	f, ok1 := ParseSq(s[0:2])
	t, ok2 := ParseSq(s[2:4])
	if !ok1 || !ok2 {
		return Move{}, false
	}
	m := Move{From: f, To: t}
	if len(s) == 5 {
		i := strings.IndexByte("nbrq", s[4])
		if i < 0 {
			return Move{}, false
		}
		m.Promo = Piece(i + 2)
	}
	return m, true
}

var knightD = [8][2]int{{1, 2}, {2, 1}, {2, -1}, {1, -2}, {-1, -2}, {-2, -1}, {-2, 1}, {-1, 2}}
var kingD = [8][2]int{{1, 0}, {1, 1}, {0, 1}, {-1, 1}, {-1, 0}, {-1, -1}, {0, -1}, {1, -1}}
var rookD = [4][2]int{{1, 0}, {0, 1}, {-1, 0}, {0, -1}}
var bishopD = [4][2]int{{1, 1}, {-1, 1}, {-1, -1}, {1, -1}}

// Attacked reports whether square s is attacked by a piece of colour byWhite
// (a pawn attacks diagonally forward whether or not something stands there).
func (p *Pos) Attacked(s int, byWhite bool) bool {
	sign := Piece(1)
	if !byWhite {
		sign = -1
	}
	f, r := File(s), Rank(s)
	// pawns: a white pawn on (f±1, r-1) attacks (f,r)
	dr := -1
	if !byWhite {
		dr = 1
	}
	for _, df := range []int{-1, 1} {
		if onBoard(f+df, r+dr) && p.B[Sq(f+df, r+dr)] == sign*Pawn {
			return true
		}
	}
	for _, d := range knightD {
		if onBoard(f+d[0], r+d[1]) && p.B[Sq(f+d[0], r+d[1])] == sign*Knight {
			return true
		}
	}
	for _, d := range kingD {
		if onBoard(f+d[0], r+d[1]) && p.B[Sq(f+d[0], r+d[1])] == sign*King {
			return true
		}
	}
	for _, d := range rookD {
		for ff, rr := f+d[0], r+d[1]; onBoard(ff, rr); ff, rr = ff+d[0], rr+d[1] {
			q := p.B[Sq(ff, rr)]
			if q != Empty {
				if q == sign*Rook || q == sign*Queen {
					return true
				}
				break
			}
		}
	}
	for _, d := range bishopD {
		for ff, rr := f+d[0], r+d[1]; onBoard(ff, rr); ff, rr = ff+d[0], rr+d[1] {
			q := p.B[Sq(ff, rr)]
			if q != Empty {
				if q == sign*Bishop || q == sign*Queen {
					return true
				}
				break
			}
		}
	}
	return false
}

func (p *Pos) KingSq(white bool) int {
	k := King
	if !white {
		k = -King
	}
	for s := 0; s < 64; s++ {
		if p.B[s] == k {
			return s
		}
	}
	return -1
}

func (p *Pos) InCheck(white bool) bool {
	k := p.KingSq(white)
	return k >= 0 && p.Attacked(k, !white)
}

// pseudo generates moves obeying piece movement, not king safety (castling is fully checked).
func (p *Pos) pseudo() []Move {
	var out []Move
	w := p.WhiteT
	own := func(q Piece) bool { return q != Empty && q.White() == w }
	for s := 0; s < 64; s++ {
		q := p.B[s]
		if !own(q) {
			continue
		}
		f, r := File(s), Rank(s)
		switch q.Kind() {
		case Pawn:
			dir, startR, promoR := 1, 1, 7
			if !w {
				dir, startR, promoR = -1, 6, 0
			}
			add := func(to int) {
				if Rank(to) == promoR {
					for _, k := range []Piece{Queen, Rook, Bishop, Knight} {
						out = append(out, Move{s, to, k})
					}
				} else {
					out = append(out, Move{s, to, Empty})
				}
			}
			if onBoard(f, r+dir) && p.B[Sq(f, r+dir)] == Empty {
				add(Sq(f, r+dir))
				if r == startR && p.B[Sq(f, r+2*dir)] == Empty {
					out = append(out, Move{s, Sq(f, r+2*dir), Empty})
				}
			}
			for _, df := range []int{-1, 1} {
				if !onBoard(f+df, r+dir) {
					continue
				}
				to := Sq(f+df, r+dir)
				t := p.B[to]
				if t != Empty && t.White() != w {
					add(to)
				} else if t == Empty && int(p.EP) == to {
					// e.p.: the pawn to be taken must stand beside us
					victim := p.B[Sq(f+df, r)]
					if victim.Kind() == Pawn && victim.White() != w {
						out = append(out, Move{s, to, Empty})
					}
				}
			}
		case Knight, King:
			ds := knightD
			if q.Kind() == King {
				ds = kingD
			}
			for _, d := range ds {
				if onBoard(f+d[0], r+d[1]) && !own(p.B[Sq(f+d[0], r+d[1])]) {
					out = append(out, Move{s, Sq(f+d[0], r+d[1]), Empty})
				}
			}
		}
		if k := q.Kind(); k == Rook || k == Queen {
			for _, d := range rookD {
				for ff, rr := f+d[0], r+d[1]; onBoard(ff, rr); ff, rr = ff+d[0], rr+d[1] {
					t := p.B[Sq(ff, rr)]
					if !own(t) {
						out = append(out, Move{s, Sq(ff, rr), Empty})
					}
					if t != Empty {
						break
					}
				}
			}
		}
		if k := q.Kind(); k == Bishop || k == Queen {
			for _, d := range bishopD {
				for ff, rr := f+d[0], r+d[1]; onBoard(ff, rr); ff, rr = ff+d[0], rr+d[1] {
					t := p.B[Sq(ff, rr)]
					if !own(t) {
						out = append(out, Move{s, Sq(ff, rr), Empty})
					}
					if t != Empty {
						break
					}
				}
			}
		}
	}
	// castling
	rank := 0
	ki, qi := WK, WQ
	sign := Piece(1)
	if !w {
		rank, ki, qi, sign = 7, BK, BQ, -1
	}
	e := Sq(4, rank)
	if p.B[e] == sign*King && !p.Attacked(e, !w) {
		if p.Castle[ki] && p.B[Sq(7, rank)] == sign*Rook && p.B[Sq(5, rank)] == Empty && p.B[Sq(6, rank)] == Empty &&
			!p.Attacked(Sq(5, rank), !w) && !p.Attacked(Sq(6, rank), !w) {
			out = append(out, Move{e, Sq(6, rank), Empty})
		}
		if p.Castle[qi] && p.B[Sq(0, rank)] == sign*Rook && p.B[Sq(1, rank)] == Empty && p.B[Sq(2, rank)] == Empty && p.B[Sq(3, rank)] == Empty &&
			!p.Attacked(Sq(3, rank), !w) && !p.Attacked(Sq(2, rank), !w) {
			out = append(out, Move{e, Sq(2, rank), Empty})
		}
	}
	return out
}

// Info describes what a move does in a position.
type Info struct {
	Piece      Piece // moving kind
	Capture    Piece // captured kind (Pawn for e.p.)
	EnPassant  bool
	Castle     bool
	DoubleStep bool
	Promotion  bool
}

func (p *Pos) Describe(m Move) Info {
	q := p.B[m.From]
	in := Info{Piece: q.Kind(), Capture: p.B[m.To].Kind(), Promotion: m.Promo != Empty}
	if q.Kind() == Pawn {
		if File(m.From) != File(m.To) && p.B[m.To] == Empty {
			in.EnPassant, in.Capture = true, Pawn
		}
		if d := Rank(m.To) - Rank(m.From); d == 2 || d == -2 {
			in.DoubleStep = true
		}
	}
	if q.Kind() == King {
		if d := File(m.To) - File(m.From); d == 2 || d == -2 {
			in.Castle = true
		}
	}
	return in
}

// Make plays m (assumed pseudo-legal for p) and returns the successor.
func (p *Pos) Make(m Move) Pos {
	n := *p
	in := p.Describe(m)
	q := p.B[m.From]
	n.B[m.From] = Empty
	if in.EnPassant {
		n.B[Sq(File(m.To), Rank(m.From))] = Empty
	}
	if in.Promotion {
		if q > 0 {
			n.B[m.To] = m.Promo
		} else {
			n.B[m.To] = -m.Promo
		}
	} else {
		n.B[m.To] = q
	}
	if in.Castle {
		r := Rank(m.From)
		if File(m.To) == 6 {
			n.B[Sq(5, r)], n.B[Sq(7, r)] = n.B[Sq(7, r)], Empty
		} else {
			n.B[Sq(3, r)], n.B[Sq(0, r)] = n.B[Sq(0, r)], Empty
		}
	}
	// rights: king or rook leaving home, rook captured at home
	drop := func(s int) {
		switch s {
		case 4:
			n.Castle[WK], n.Castle[WQ] = false, false
		case 0:
			n.Castle[WQ] = false
		case 7:
			n.Castle[WK] = false
		case 60:
			n.Castle[BK], n.Castle[BQ] = false, false
		case 56:
			n.Castle[BQ] = false
		case 63:
			n.Castle[BK] = false
		}
	}
	drop(m.From)
	drop(m.To)
	n.EP = -1
	if in.DoubleStep {
		n.EP = int8((m.From + m.To) / 2)
	}
	n.WhiteT = !p.WhiteT
	return n
}

// LegalMoves returns the legal moves, in a deterministic order (by origin square, generation order).
func (p *Pos) LegalMoves() []Move {
	var out []Move
	for _, m := range p.pseudo() {
		n := p.Make(m)
		if !n.InCheck(p.WhiteT) {
			out = append(out, m)
		}
	}
	return out
}

// PseudoOnly returns moves that obey piece movement but leave the own king in check.
func (p *Pos) PseudoOnly() []Move {
	var out []Move
	for _, m := range p.pseudo() {
		n := p.Make(m)
		if n.InCheck(p.WhiteT) {
			out = append(out, m)
		}
	}
	return out
}

func (p *Pos) IsLegal(m Move) bool {
	for _, x := range p.LegalMoves() {
		if x == m {
			return true
		}
	}
	return false
}

// ---- FEN ----

func ParseFEN(s string) (Pos, int, int, error) {
	var p Pos
	p.EP = -1
	parts := strings.Fields(s)
	if len(parts) != 6 {
		return p, 0, 0, fmt.Errorf("fen: want 6 fields: %q", s)
	}
	rows := strings.Split(parts[0], "/")
	if len(rows) != 8 {
		return p, 0, 0, fmt.Errorf("fen: want 8 rows: %q", s)
	}
	for i, row := range rows {
		r := 7 - i
		f := 0
		for _, c := range []byte(row) {
			if c >= '1' && c <= '8' {
				f += int(c - '0')
				continue
			}
			k := strings.IndexByte(letters, c|0x20)
			if k <= 0 || f > 7 {
				return p, 0, 0, fmt.Errorf("fen: bad row %q", row)
			}
			if c >= 'a' {
				p.B[Sq(f, r)] = -Piece(k)
			} else {
				p.B[Sq(f, r)] = Piece(k)
			}
			f++
		}
		if f != 8 {
			return p, 0, 0, fmt.Errorf("fen: bad row length %q", row)
		}
	}
	switch parts[1] {
	case "w":
		p.WhiteT = true
	case "b":
	default:
		return p, 0, 0, fmt.Errorf("fen: bad side %q", parts[1])
	}
	if parts[2] != "-" {
		for _, c := range []byte(parts[2]) {
			i := strings.IndexByte("KQkq", c)
			if i < 0 {
				return p, 0, 0, fmt.Errorf("fen: bad castling %q", parts[2])
			}
			p.Castle[i] = true
		}
	}
	if parts[3] != "-" {
		e, ok := ParseSq(parts[3])
		if !ok {
			return p, 0, 0, fmt.Errorf("fen: bad ep %q", parts[3])
		}
		p.EP = int8(e)
	}
	h, err1 := strconv.Atoi(parts[4])
	fm, err2 := strconv.Atoi(parts[5])
	if err1 != nil || err2 != nil || h < 0 || fm < 0 {
		return p, 0, 0, fmt.Errorf("fen: bad clocks %q", s)
	}
	return p, h, fm, nil
}

func MustFEN(s string) (Pos, int, int) {
	p, h, f, err := ParseFEN(s)
	if err != nil {
		panic(err)
	}
	return p, h, f
}

// FEN4 renders placement, side, castling and e.p. target.
func (p *Pos) FEN4() string {
	var sb strings.Builder
	for r := 7; r >= 0; r-- {
		blank := 0
		for f := 0; f < 8; f++ {
			q := p.B[Sq(f, r)]
			if q == Empty {
				blank++
				continue
			}
			if blank > 0 {
				sb.WriteByte(byte('0' + blank))
				blank = 0
			}
			sb.WriteByte(q.Letter())
		}
		if blank > 0 {
			sb.WriteByte(byte('0' + blank))
		}
		if r > 0 {
			sb.WriteByte('/')
		}
	}
	if p.WhiteT {
		sb.WriteString(" w ")
	} else {
		sb.WriteString(" b ")
	}
	any := false
	for i, c := range []byte("KQkq") {
		if p.Castle[i] {
			sb.WriteByte(c)
			any = true
		}
	}
	if !any {
		sb.WriteByte('-')
	}
	sb.WriteByte(' ')
	if p.EP >= 0 {
		sb.WriteString(SqName(int(p.EP)))
	} else {
		sb.WriteByte('-')
	}
	return sb.String()
}

func (p *Pos) FEN(half, full int) string {
	return fmt.Sprintf("%s %d %d", p.FEN4(), half, full)
}

// Perft counts leaf nodes; used to validate this model against published counts.
func (p *Pos) Perft(d int) uint64 {
	if d == 0 {
		return 1
	}
	ms := p.LegalMoves()
	if d == 1 {
		return uint64(len(ms))
	}
	var n uint64
	for _, m := range ms {
		c := p.Make(m)
		n += c.Perft(d - 1)
	}
	return n
}

// Material classes used by C05's sentence.
func (p *Pos) InsufficientMaterial() bool {
	var minors, others int
	var bishopsLight, bishopsDark int
	for s := 0; s < 64; s++ {
		switch p.B[s].Kind() {
		case Empty, King:
		case Knight:
			minors++
		case Bishop:
			minors++
			if (File(s)+Rank(s))%2 == 0 {
				bishopsDark++
			} else {
				bishopsLight++
			}
		default:
			others++
		}
	}
	if others > 0 {
		return false
	}
	if minors <= 1 {
		return true // K-K, K+minor-K
	}
	// kings with two bishops on one square colour
	return minors == 2 && (bishopsLight == 2 || bishopsDark == 2)
}
